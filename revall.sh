#!/bin/sh
# usage: revall.sh <seeds...>: for every "fixed:" line of known_findings.json undo that commit in a scratch worktree and run the check(s) of
# the property it is filed under (and the "also Cnn" ones); prints one line per (commit, check, seed)
seeds="$*"; [ -z "$seeds" ] && seeds="1 2"
/venv/bin/python - <<'PY' > /tmp/revall.list
import json,re
d=json.load(open('/verif/known_findings.json'))
for l in d['fixed']:
    m=re.match(r'fixed: property=(C\d\d) ([0-9a-f]{7}) (.*)', l)
    if not m: continue
    props=[m.group(1)]+re.findall(r'also ((?:C\d\d(?:, )?)+)', m.group(3))
    ids=[]
    for p in props:
        for q in re.findall(r'C\d\d', p):
            if q not in ids: ids.append(q)
    print(m.group(2), ' '.join(ids))
PY
while read c ids; do
  echo "== $c ($ids)"
  ./revtest.sh $c $seeds -- $ids 2>&1 | sed 's/^/   /' | cut -c1-200
done < /tmp/revall.list
