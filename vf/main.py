"""./check <ID> <quick|thorough> [--replay path]"""
import importlib
import os
import sys
import traceback

from .common import Ctx, ensure_deps


def main(argv):
    if len(argv) < 2:
        print("usage: check <ID> <quick|thorough> [--replay path]")
        return 3
    pid, tier = argv[0].upper(), argv[1]
    if tier not in ("quick", "thorough"):
        print("tier must be quick or thorough")
        return 3
    os.environ.setdefault("VERIF_TIER", tier)
    ensure_deps()
    try:
        mod = importlib.import_module(f"vf.props.{pid.lower()}")
    except ModuleNotFoundError:
        print(f"no check for {pid}")
        return 3
    if "--replay" in argv:
        path = argv[argv.index("--replay") + 1]
        return mod.replay(path)
    ctx = Ctx(pid, tier, level=getattr(mod, "LEVEL", "exploration"))
    try:
        mod.run(ctx)
    except Exception:
        traceback.print_exc()
        print(f"INCONCLUSIVE property={pid} harness error", flush=True)
        ctx.inconclusive.append("harness error")
        try:
            ctx.finish()
        except Exception:
            pass
        return 3
    return ctx.finish()


if __name__ == "__main__":
    sys.exit(main(sys.argv[1:]))
