"""C arithmetic oracle (LP64, gcc/clang): big-integer evaluation with explicit C typing.

Types are (bits, signed). Returns UB for signed overflow, shift >= width / negative shift / left shift of a negative or
overflowing signed value, division or remainder by zero, INT_MIN / -1. Conversions to signed types wrap (gcc/clang).
"""
INT = (32, True)
UINT = (32, False)
LONG = (64, True)
ULONG = (64, False)
U8 = (8, False)
CHAR = (8, True)


class UB(Exception):
    pass


def wrap(v, t):
    bits, signed = t
    v &= (1 << bits) - 1
    if signed and v >> (bits - 1):
        v -= 1 << bits
    return v


def fits(v, t):
    bits, signed = t
    if signed:
        return -(1 << (bits - 1)) <= v < (1 << (bits - 1))
    return 0 <= v < (1 << bits)


def promote(t):
    bits, signed = t
    if bits < 32:
        return INT
    return t


def usual(a, b):
    a, b = promote(a), promote(b)
    if a == b:
        return a
    (ba, sa), (bb, sb) = a, b
    if sa == sb:
        return a if ba >= bb else b
    u, s = (a, b) if not sa else (b, a)
    if u[0] >= s[0]:
        return u
    return s        # signed type can represent all values of the unsigned one (long vs unsigned int)


def literal_type(v):
    """type of a non-negative decimal literal"""
    if v <= 0x7fffffff:
        return INT
    if v <= 0x7fffffffffffffff:
        return LONG
    raise UB("literal too large")


def ctype_of_out(o):
    """C type of an int output as nmfu declares it (width in bytes; default int32_t)"""
    signed = True if o.signed is None else o.signed
    width = o.width or 4
    return (width * 8, signed)


def counter_type(size):
    if size < 256:
        return U8
    if size < 65536:
        return (16, False)
    return UINT


class Env:
    def __init__(self, outs, values, last, u8_strings=False, unsafe=False):
        self.outs = {o.name: o for o in outs}
        self.values = values          # name -> int | bytes (current content) for buffers
        self.last = last
        self.full = {}                # name -> whole buffer content (capacity bytes)
        self.u8 = u8_strings
        self.unsafe = unsafe


def arith(op, ta, va, tb, vb):
    if op in ("<<", ">>"):
        t = promote(ta)
        va = wrap(va, t)
        tbp = promote(tb)
        vb = wrap(vb, tbp)
        if vb < 0 or vb >= t[0]:
            raise UB("shift amount")
        if op == "<<":
            if t[1]:
                if va < 0:
                    raise UB("left shift of negative")
                r = va << vb
                if not fits(r, t):
                    raise UB("left shift overflow")
                return t, r
            return t, wrap(va << vb, t)
        return t, va >> vb          # arithmetic shift for negative signed (implementation-defined; gcc/clang: arithmetic)
    t = usual(ta, tb)
    a, b = wrap(va, t), wrap(vb, t)
    if op in ("==", "!=", "<", ">", "<=", ">="):
        r = {"==": a == b, "!=": a != b, "<": a < b, ">": a > b, "<=": a <= b, ">=": a >= b}[op]
        return INT, int(r)
    if op == "+":
        r = a + b
    elif op == "-":
        r = a - b
    elif op == "*":
        r = a * b
    elif op in ("/", "%"):
        if b == 0:
            raise UB("division by zero")
        q = abs(a) // abs(b)
        if (a < 0) != (b < 0):
            q = -q
        if op == "/":
            r = q
        else:
            r = a - q * b
        if t[1] and not fits(q, t):
            raise UB("INT_MIN / -1")
    elif op == "&":
        r = a & b
    elif op == "|":
        r = a | b
    elif op == "^":
        r = a ^ b
    else:
        raise ValueError(op)
    if t[1]:
        if not fits(r, t):
            raise UB("signed overflow")
        return t, r
    return t, wrap(r, t)


def ev(e, env):
    """-> (type, value). e: gen.N expression."""
    k = e.kind
    if k == "num":
        v = e.v
        if v < 0:
            return neg_literal(literal_type(-v), -v)
        return literal_type(v), v
    if k == "chr":
        return INT, e.v
    if k == "bool":
        return INT, int(e.v)
    if k == "last":
        return U8, env.last
    if k == "var":
        o = env.outs[e.name]
        if o.typ == "bool":
            return (1, False), int(bool(env.values[e.name]))
        if o.typ == "enum":
            return UINT, env.values[e.name]
        t = ctype_of_out(o)
        return t, wrap(env.values[e.name], t)
    if k == "len":
        o = env.outs[e.name]
        if o.typ == "raw":
            return U8, len(env.values[e.name])
        return counter_type(o.size), len(env.values[e.name])
    if k == "idx":
        o = env.outs[e.name]
        ti, vi = ev(e.e, env)
        size = o.size if o.typ != "raw" else o.raw_size
        buf = env.values[e.name]
        # ((i) >= 0 && (i) < SIZE) ? s[i] : 0
        _, ge = arith(">=", ti, vi, INT, 0)
        _, lt = arith("<", ti, vi, literal_type(size), size)
        if ge and lt:
            iv = wrap(vi, promote(ti))
            content = env.full[e.name]
            byte = content[iv]
            return INT, byte        # indexed bytes are 0..255 in every storage mode
        return INT, 0
    if k == "neg":
        ta, va = ev(e.a, env)
        return arith("-", INT, 0, ta, va)
    if k == "not":
        ta, va = ev(e.a, env)
        return arith("==", ta, va, INT, 0)
    if k == "bin":
        if e.op == "&&":
            ta, va = ev(e.a, env)
            if not truthy(ta, va):
                return INT, 0
            tb, vb = ev(e.b, env)
            return INT, int(truthy(tb, vb))
        if e.op == "||":
            ta, va = ev(e.a, env)
            if truthy(ta, va):
                return INT, 1
            tb, vb = ev(e.b, env)
            return INT, int(truthy(tb, vb))
        ta, va = ev(e.a, env)
        tb, vb = ev(e.b, env)
        return arith(e.op, ta, va, tb, vb)
    raise ValueError(k)


def neg_literal(t, v):
    # "-N" in the emitted C is unary minus applied to the literal N
    r = -v
    if not fits(r, t):
        raise UB("negated literal overflow")
    return t, r


def truthy(t, v):
    return wrap(v, promote(t)) != 0 if t[0] > 1 else bool(v)


def store(t_target, t, v):
    """value stored into an output of C type t_target ((1,False) = bool)"""
    if t_target == (1, False):
        return int(truthy(t, v))
    return wrap(v, t_target)
