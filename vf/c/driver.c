/* Recording driver: executes a script of runs against a batch of nmfu-generated parsers and writes an event log.
 *
 * Instrumentation applied to every call (the monitors' eyes):
 *  - each chunk is copied to a fresh exact-size heap block (one byte outside [start,end) = ASan report)
 *  - the state struct is relocated to a fresh heap block between calls (anything carried outside it = ASan report)
 *  - hooks and returns are logged with a snapshot of every output
 *  - driver invariants on string counters / terminators after start() and after every call
 *  - SanitizerCoverage trace-pc-guard edges are counted per call (logical step meter) with exact
 *    configuration-repeat detection when the bound is exceeded
 */
#include <stdlib.h>
#include <string.h>
#include <setjmp.h>
#include "drv.h"

extern const drv_prog_t *drv_progs[];
extern const int drv_nprogs;
int __lsan_do_recoverable_leak_check(void);

FILE *drv_log;
const uint8_t **drv_pp;
const uint8_t *drv_buf;
long drv_base;

static const drv_prog_t *P;
static void *ST;               /* live state block */
static int dead;               /* run unusable (spin) */
static long callno;
static long hook_records;
static int terminal;
static int term_code = -1;           /* a terminal code has been returned: further FEEDs are skipped until AFTER */
static int quiet_ok;           /* do not log plain OK returns */
static long chunk_n;           /* length of the chunk being fed */

/* ---- step meter ------------------------------------------------------------------------------------ */
static volatile int in_call;
static unsigned long edges, bound = 20000;
static jmp_buf jb;
static uint32_t nguards;
static uint8_t *hit;
static int armed;
static uint32_t arm_guard;
static uint8_t *arm_state;
static const uint8_t *arm_p;
static int spin_repeat;

void __sanitizer_cov_trace_pc_guard_init(uint32_t *start, uint32_t *stop) {
    if (start == stop || *start) return;
    for (uint32_t *x = start; x < stop; x++) *x = ++nguards;
}

void __sanitizer_cov_trace_pc_guard(uint32_t *g) {
    if (!in_call) return;
    edges++;
    if (hit && *g <= nguards) hit[*g] = 1;
    if (edges <= bound) return;
    if (!armed) {
        if (!P->indirect || !drv_pp) {      /* no position information: bound only */
            if (edges > 50 * bound) { spin_repeat = 0; in_call = 0; longjmp(jb, 1); }
            return;
        }
        armed = 1;
        arm_guard = *g;
        arm_state = malloc(P->state_size);
        memcpy(arm_state, ST, P->state_size);
        arm_p = *drv_pp;
        return;
    }
    if (*g == arm_guard && arm_p == *drv_pp && memcmp(arm_state, ST, P->state_size) == 0) {
        spin_repeat = 1; in_call = 0; longjmp(jb, 1);
    }
    if (edges > 50 * bound) { spin_repeat = 0; in_call = 0; longjmp(jb, 1); }
}

/* ---- log helpers ----------------------------------------------------------------------------------- */
void drv_snap_int(const char *name, long long v) { fprintf(drv_log, "%s=%lld;", name, v); }
void drv_snap_uint(const char *name, unsigned long long v) { fprintf(drv_log, "%s=%llu;", name, v); }
void drv_snap_buf(const char *name, const void *buf, unsigned long counter, unsigned long cap, int terminated, int is_null) {
    const uint8_t *b = buf;
    unsigned long n = counter > cap ? cap : counter;
    fprintf(drv_log, "%s=%lu:", name, counter);
    if (!is_null) for (unsigned long i = 0; i < n; i++) fprintf(drv_log, "%02x", b[i]);
    /* terminator byte: only where it exists (terminated, buffer present, counter within capacity) */
    if (terminated && !is_null && counter < cap) fprintf(drv_log, ":%d", b[counter]); else fprintf(drv_log, ":-1");
    fprintf(drv_log, ":%d;", is_null);
}
void drv_invariant(const char *which, const char *name, long a, long b) {
    fprintf(drv_log, "I %s %s %ld %ld\n", which, name, a, b);
}

void drv_hook(int idx, int inval, void *st, const drv_prog_t *p) {
    if (++hook_records > 20000) return;
    long off = -1;
    if (p->indirect && drv_pp) off = drv_base + (long)(*drv_pp - drv_buf);
    fprintf(drv_log, "H %d %d %ld %ld %ld ", idx, inval, off, drv_base, chunk_n);
    p->snap(st);
    fputc('\n', drv_log);
}

static void relocate(void) {
    void *n = malloc(P->state_size);
    memcpy(n, ST, P->state_size);
    free(ST);
    ST = n;
}

static void log_ret(const char *kind, int code, long off, void *st) {
    if (quiet_ok && code == P->code_ok && kind[0] != 'S') return;
    fprintf(drv_log, "R %s %ld %d %ld %ld %lu %ld %ld ", kind, callno, code, off, P->getstate(st), edges, drv_base, chunk_n);
    P->snap(st);
    fputc('\n', drv_log);
}

static void log_spin(void) {
    fprintf(drv_log, "P %ld %lu %d %ld\n", callno, edges, spin_repeat, P->getstate(ST));
    dead = 1;
}

static int is_yield(int code) { return P->first_yield >= 0 && code >= P->first_yield; }

static void reset_meter(void) {
    edges = 0; armed = 0; spin_repeat = 0;
    if (arm_state) { free(arm_state); arm_state = NULL; }
}

/* one FEED command: exact-size buffer; with yields a re-invocation loop */
static int do_feed(const uint8_t *bytes, int n, const char *kind) {
    uint8_t *block = malloc(n ? n : 1);
    const uint8_t *buf = n ? block : block + 1;   /* zero-length: start == end == one past a 1-byte block */
    if (n) memcpy(block, bytes, n);
    const uint8_t *p = buf, *end = buf + n;
    int code = -1;
    drv_buf = buf;
    chunk_n = n;
    /* yield-loop configuration repeat detection: saved state copies at the current p */
    enum { MAXSAVE = 64 };
    static uint8_t *saved[MAXSAVE];
    int nsaved = 0;
    const uint8_t *saved_p = NULL;
    for (;;) {
        callno++;
        reset_meter();
        drv_pp = &p;
        if (setjmp(jb) == 0) {
            in_call = 1;
            code = P->feed(&p, end, ST);
            in_call = 0;
        } else {
            log_spin();
            break;
        }
        drv_pp = NULL;
        P->invariants(ST);
        log_ret(kind, code, P->indirect ? drv_base + (long)(p - buf) : -1, ST);
        if (!is_yield(code)) { if (code != P->code_ok) { terminal = 1; term_code = code; } break; }
        if (saved_p != p) { for (int i = 0; i < nsaved; i++) free(saved[i]); nsaved = 0; saved_p = p; }
        int rep = 0;
        for (int i = 0; i < nsaved; i++) if (memcmp(saved[i], ST, P->state_size) == 0) rep = 1;
        if (rep || nsaved == MAXSAVE) {
            spin_repeat = rep;
            fprintf(drv_log, "P %ld %lu %d %ld\n", callno, (unsigned long)nsaved, rep + 2, P->getstate(ST));
            dead = 1;
            break;
        }
        saved[nsaved] = malloc(P->state_size);
        memcpy(saved[nsaved++], ST, P->state_size);
        relocate();
    }
    for (int i = 0; i < nsaved; i++) free(saved[i]);
    drv_pp = NULL;
    drv_base += n;
    free(block);
    if (!dead) relocate();
    return code;
}

static int do_end(void *st, const char *kind) {
    int code = -1;
    callno++;
    reset_meter();
    drv_pp = NULL;
    if (setjmp(jb) == 0) {
        in_call = 1;
        code = P->end(st);
        in_call = 0;
    } else {
        log_spin();
        return -1;
    }
    P->invariants(st);
    log_ret(kind, code, -1, st);
    return code;
}

static int hexval(int c) { return c <= '9' ? c - '0' : (c | 32) - 'a' + 10; }
static int unhex(const char *s, uint8_t *out) {
    int n = 0;
    if (s[0] == '-') return 0;
    while (s[0] && s[1] && s[0] != '\n') { out[n++] = (uint8_t)(hexval(s[0]) * 16 + hexval(s[1])); s += 2; }
    return n;
}

int main(int argc, char **argv) {
    if (argc < 3) { fprintf(stderr, "usage: driver script log\n"); return 2; }
    FILE *sc = fopen(argv[1], "r");
    drv_log = fopen(argv[2], "w");
    if (!sc || !drv_log) return 2;
    static char vbuf[1 << 20];
    setvbuf(drv_log, vbuf, _IOFBF, sizeof vbuf);
    hit = calloc(nguards + 2, 1);
    char *line = NULL; size_t cap = 0;
    static uint8_t bytes[1 << 16];
    int poison = -1;
    long skip = argc > 3 ? atol(argv[3]) : 0, runs_seen = 0;
    while (getline(&line, &cap, sc) > 0) {
        if (!strncmp(line, "RUN ", 4)) runs_seen++;
        if (runs_seen <= skip) continue;
        char cmd[32]; char a1[1 << 17]; char a2[1 << 12];
        a1[0] = a2[0] = 0;
        int nf = sscanf(line, "%31s %131071s %4095s", cmd, a1, a2);
        if (nf < 1) continue;
        if (!strcmp(cmd, "RUN")) {
            if (ST) { if (P->has_free) P->free_(ST); free(ST); ST = NULL; }
            long k = atol(a2);
            if (k < 0 || k >= drv_nprogs) { fprintf(stderr, "bad prog %ld\n", k); return 2; }
            P = drv_progs[k];
            fprintf(drv_log, "B %s %ld\n", a1, k);
            fflush(drv_log);
            dead = 0; callno = 0; hook_records = 0; drv_base = 0; poison = -1; bound = 20000; terminal = 0; term_code = -1; quiet_ok = 0; chunk_n = 0;
            continue;
        }
        if (!P) continue;
        if (dead && strcmp(cmd, "ENDRUN") && strcmp(cmd, "LEAKCHECK")) continue;
        if (!strcmp(cmd, "POISON")) { poison = atoi(a1); }
        else if (!strcmp(cmd, "BOUND")) { bound = strtoul(a1, NULL, 10); }
        else if (!strcmp(cmd, "START")) {
            ST = malloc(P->state_size);
            if (poison >= 0) { memset(ST, poison, P->state_size); P->prep(ST); } else memset(ST, 0, P->state_size);
            P->sethooks(ST);
            reset_meter();
            int code = -1;
            if (setjmp(jb) == 0) { in_call = 1; code = P->start(ST); in_call = 0; } else { log_spin(); continue; }
            P->sethooks(ST);
            P->invariants(ST);
            log_ret("S", code, -1, ST);
            if (code != P->code_ok) terminal = 1;
            relocate();
        }
        else if (!strcmp(cmd, "QUIETOK")) { quiet_ok = atoi(a1); }
        else if (!strcmp(cmd, "AFTER")) { terminal = 0; }
        else if (!strcmp(cmd, "FEED")) { int n = unhex(a1, bytes); if (n > 0 && !terminal) do_feed(bytes, n, "F"); }
        else if (!strcmp(cmd, "FEEDZ")) { if (!terminal) do_feed(bytes, 0, "Z"); }
        else if (!strcmp(cmd, "FEED1")) {   /* one byte per call */
            int n = unhex(a1, bytes);
            for (int i = 0; i < n && !dead && !terminal; i++) do_feed(bytes + i, 1, "F");
        }
        else if (!strcmp(cmd, "END")) { if (P->has_end && !terminal) { int c = do_end(ST, "E"); if (c != P->code_ok) terminal = 1; } }
        else if (!strcmp(cmd, "ENDIFDONE")) {   /* end() after feed() has already reported DONE: the program has reached its end */
            if (P->has_end && terminal && term_code == P->code_done && !dead) do_end(ST, "D");
        }
        else if (!strcmp(cmd, "ENDCOPY")) {
            if (P->has_end) {
                void *c = malloc(P->state_size);
                P->deepcopy(c, ST);
                void *keep = ST; ST = c;        /* the meter looks at ST */
                do_end(c, "C");
                ST = keep;
                P->deepfree(c);
                free(c);
                dead = 0;
            }
        }
        else if (!strcmp(cmd, "FORCE")) { P->setstate(ST, atol(a1)); }
        else if (!strcmp(cmd, "SET")) { if (P->set(ST, a1, a2[0] == '-' ? strtoll(a2, NULL, 10) : (long long)strtoull(a2, NULL, 10))) fprintf(stderr, "SET: no such output %s\n", a1); }
        else if (!strcmp(cmd, "SETSTR")) { int n = unhex(a2, bytes); if (P->setstr(ST, a1, bytes, n)) fprintf(stderr, "SETSTR: no such output %s\n", a1); }
        else if (!strcmp(cmd, "SWEEP")) {
            /* from the current state: for every byte value, one forced step on a deep copy: feed code, end() code after it, pointer advance.
               a1 = "s" additionally logs the snapshot + state index after each step (one line per byte) */
            int detail = a1[0] == 's';
            if (!detail) fprintf(drv_log, "W ");
            for (int b = 0; b < 256 && !dead; b++) {
                void *c = malloc(P->state_size);
                P->deepcopy(c, ST);
                void *keep = ST; ST = c;
                uint8_t *blk = malloc(1); blk[0] = (uint8_t)b;
                const uint8_t *p = blk;
                int code = -1, ecode = 15;
                long hooks_before = hook_records;
                reset_meter(); drv_pp = &p; drv_buf = blk; chunk_n = 1;
                if (detail) fprintf(drv_log, "w %d\n", b);
                if (setjmp(jb) == 0) { in_call = 1; code = P->feed(&p, blk + 1, ST); in_call = 0; }
                else { log_spin(); dead = 0; code = 14; }
                drv_pp = NULL;
                long adv = P->indirect ? (long)(p - blk) : 9;
                if (detail) { fprintf(drv_log, "v %d %d %ld %ld ", b, code, adv, P->getstate(ST)); P->snap(ST); fputc('\n', drv_log); }
                if (P->has_end && code == P->code_ok) {
                    void *c2 = malloc(P->state_size);
                    P->deepcopy(c2, ST);
                    void *k2 = ST; ST = c2;
                    reset_meter();
                    if (setjmp(jb) == 0) { in_call = 1; ecode = P->end(c2); in_call = 0; } else { ecode = 14; dead = 0; }
                    ST = k2;
                    P->deepfree(c2); free(c2);
                }
                (void)hooks_before;
                if (!detail) fprintf(drv_log, "%x%x%lx", code & 15, ecode & 15, adv & 15);
                P->deepfree(ST); free(ST); ST = keep; free(blk);
            }
            if (!detail) fputc('\n', drv_log);
            else fprintf(drv_log, "w 256\n");      /* end of the sweep: hooks of the last byte's end() step stop here */
        }
        else if (!strcmp(cmd, "SNAP")) { fprintf(drv_log, "N "); P->snap(ST); fputc('\n', drv_log); }
        else if (!strcmp(cmd, "FREE")) {
            if (P->has_free) {
                P->free_(ST);
                if (a1[0] == '2') P->free_(ST);   /* free twice: must be harmless (pointers nulled) */
            }
            free(ST); ST = NULL;
        }
        else if (!strcmp(cmd, "LEAKCHECK")) {   /* expensive (stops the world): only where a run asks for it */
            int leaks = __lsan_do_recoverable_leak_check();
            fprintf(drv_log, "L %d\n", leaks);
        }
        else if (!strcmp(cmd, "ENDRUN")) {
            if (ST) { if (P->has_free) P->free_(ST); free(ST); ST = NULL; }
            fprintf(drv_log, "X %ld\n", callno);
        }
    }
    unsigned long nh = 0;
    for (uint32_t i = 1; i <= nguards; i++) nh += hit[i];
    fprintf(drv_log, "G %lu %u\n", nh, nguards);
    fclose(drv_log);
    return 0;
}
