/* Recording driver for nmfu-generated parsers: shared declarations between driver.c and per-program glue. */
#ifndef DRV_H
#define DRV_H
#include <stdint.h>
#include <stddef.h>
#include <stdio.h>

typedef struct drv_prog {
    const char *name;
    size_t state_size;
    int indirect, has_end, has_free, nhooks;
    int code_ok, code_fail, code_done, first_yield, ncodes; /* result enumerator values */
    int (*start)(void *st);
    int (*feed)(const uint8_t **pp, const uint8_t *end, void *st);
    int (*end)(void *st);
    void (*free_)(void *st);
    void (*snap)(void *st);
    void (*sethooks)(void *st);
    void (*deepcopy)(void *dst, const void *src);
    void (*deepfree)(void *st);
    int (*set)(void *st, const char *name, long long v);
    int (*setstr)(void *st, const char *name, const uint8_t *b, int n);
    long (*getstate)(void *st);
    void (*setstate)(void *st, long k);
    void (*invariants)(void *st);
    void (*prep)(void *st);      /* after POISON: scalar outputs without defaults are the user's to initialise */
} drv_prog_t;

extern FILE *drv_log;
extern const uint8_t **drv_pp;      /* address of the caller's start pointer during a feed call (indirect mode) */
extern const uint8_t *drv_buf;      /* start of the current chunk */
extern long drv_base;               /* absolute offset of the current chunk in the run's input */

void drv_hook(int idx, int inval, void *st, const drv_prog_t *p);
void drv_snap_int(const char *name, long long v);
void drv_snap_uint(const char *name, unsigned long long v);
void drv_snap_buf(const char *name, const void *buf, unsigned long counter, unsigned long cap, int terminated, int is_null);
void drv_invariant(const char *which, const char *name, long a, long b);

#endif
