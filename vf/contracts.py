"""icontract post-conditions attached from the harness to real nmfu functions (no source hooks)."""
import re

from . import lit, nm


class Sink:
    def __init__(self):
        self.evals = 0
        self.failures = []    # dicts


def install_set_string(sink):
    """CodegenCtx._generate_set_string: the emitted C literal decodes (C lexical rules) to exactly the intended bytes,
    the memcpy length is len+terminator, and it fits the declared capacity."""
    import icontract
    m = nm.nmfu()
    cls = m.CodegenCtx
    if getattr(cls, "_vf_set_string", False):
        cls._vf_sink_set_string[0] = sink
        return
    holder = [sink]
    orig = cls._generate_set_string

    def set_string_post(self, value, into, result):
        s = holder[0]
        s.evals += 1
        intended = bytes(value) if isinstance(value, (bytes, bytearray)) else bytes(min(ord(c), 255) for c in value)
        mm = re.fullmatch(r'memcpy\(state->c\.(\w+), (".*"), (\d+)\);', result, re.S)
        rec = {"into": into.name, "size": into.str_size, "terminated": bool(into.str_null), "intended_hex": intended.hex(), "emitted": result}
        if not mm:
            rec["why"] = "unrecognised set-string statement"
            s.failures.append(rec)
            return True
        n = int(mm.group(3))
        try:
            decoded = lit.decode_c_string(mm.group(2))
        except (ValueError, OverflowError) as e:
            rec["why"] = "c-literal-invalid:" + type(e).__name__
            rec["detail"] = str(e)
            s.failures.append(rec)
            return True
        rec["decoded_hex"] = decoded.hex()
        if decoded != intended:
            hexmerge = re.search(r'\\x[0-9a-fA-F]{2}[0-9a-fA-F]', mm.group(2)) is not None
            rec["why"] = "c-literal-bytes-differ:" + ("hex-escape-followed-by-hexdigit" if hexmerge else
                                                      ("non-ascii-utf8-encoded" if any(b >= 0x80 for b in intended) else "other"))
            s.failures.append(rec)
        elif n != len(intended) + (1 if into.str_null else 0):
            rec["why"] = "memcpy-length-mismatch"
            s.failures.append(rec)
        if n > into.str_size or len(intended) > into.effective_string_size():
            rec2 = dict(rec)
            rec2["why"] = "constant-exceeds-capacity"
            s.failures.append(rec2)
        return True

    cls._generate_set_string = icontract.ensure(set_string_post)(orig)
    cls._vf_set_string = True
    cls._vf_sink_set_string = holder


def install_condition(sink):
    """CodegenCtx._generate_condition_for_transition: the byte set satisfying the emitted C condition equals on_values minus End."""
    import icontract
    m = nm.nmfu()
    cls = m.CodegenCtx
    if getattr(cls, "_vf_cond", False):
        cls._vf_sink_cond[0] = sink
        return
    holder = [sink]
    orig = cls._generate_condition_for_transition
    End, Else = m.DFTransition.End, m.DFTransition.Else

    def condition_post(self, transition, result):
        s = holder[0]
        s.evals += 1
        want = set()
        for v in transition.on_values:
            if v is End or v is Else:
                continue
            want.add(ord(v))
        got = set()
        text = re.sub(r"/\*.*?\*/", "", result)
        ok = True
        if text.strip():
            for term in text.split("||"):
                term = term.strip()
                mm = re.fullmatch(r"inval == (\d+)", term)
                if mm:
                    got.add(int(mm.group(1)))
                    continue
                mm = re.fullmatch(r"\((\d+) <= inval && inval <= (\d+)\s*\)", term)
                if mm:
                    got |= set(range(int(mm.group(1)), int(mm.group(2)) + 1))
                    continue
                # other spellings of a byte interval (a refactored generator might use them)
                t2 = term.strip("() ")
                mm = re.fullmatch(r"inval (<=|<|>=|>) (\d+)", t2) or None
                if mm:
                    op, n = mm.group(1), int(mm.group(2))
                    got |= {b for b in range(256) if (b <= n if op == "<=" else b < n if op == "<" else b >= n if op == ">=" else b > n)}
                    continue
                mm = re.fullmatch(r"(\d+) (<=|<) inval", t2)
                if mm:
                    n, op = int(mm.group(1)), mm.group(2)
                    got |= {b for b in range(256) if (n <= b if op == "<=" else n < b)}
                    continue
                if t2 in ("1", "true"):
                    got |= set(range(256))
                    continue
                ok = False
        got = {b for b in got if b < 256}
        want256 = {b for b in want if b < 256}
        if not ok:
            s.failures.append({"why": "unrecognised-condition", "emitted": result})
        elif got != want256:
            s.failures.append({"why": "condition-set-differs", "emitted": result[:400], "missing": sorted(want256 - got)[:20], "extra": sorted(got - want256)[:20],
                               "on_values": sorted(want)[:40], "range_collapsed": "<=" in result})
        elif "<=" in text:
            s.ranges = getattr(s, "ranges", 0) + 1
        return True

    cls._generate_condition_for_transition = icontract.ensure(condition_post)(orig)
    cls._vf_cond = True
    cls._vf_sink_cond = holder
