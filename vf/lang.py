"""Language-equality monitor shared by C07 / C15 / C16: `parser { P; end; }` observed at every prefix and by 256-byte sweeps
against a derivative-based semantic regex."""
import itertools

from . import cdrv, nm, rx, work


class RxAuto:
    """automaton view of a semantic regex (rx.py tuples)"""
    def __init__(self, sem):
        self.sem = sem

    def start(self):
        return self.sem

    def step(self, q, b):
        d = rx.deriv(q, b)
        return None if d == rx.EMPTY else d

    def accepting(self, q):
        return rx.nullable(q)

    def sets(self):
        return rx.sets_in(self.sem)


def check_languages(ctx, todo, rng, KEY, strings_budget=90, sweep_states=3, per_batch=30, max_reps=6, extra_args=(), classify=None):
    """todo: [(pattern_source | full program source, semantic_regex | automaton, extra_strings|None)]
    automaton interface: start(), step(q, byte) -> q' | None (dead: FAIL at this byte), accepting(q) (end() == DONE), sets()"""
    for chunk in work.chunked(todo, per_batch):
        progs = []
        for i, (psrc, sem, extra_strings) in enumerate(chunk):
            src = psrc if "parser {" in psrc else "parser {\n %s;\n end;\n}\n" % psrc
            if isinstance(sem, tuple):
                sem = RxAuto(sem)
            args = ["-feof-support", "-findirect-start-ptr", rng.choice(["-O0", "-O1", "-O2", "-O3"])] + list(extra_args)
            r = nm.compile_source(src, args, name="p%d" % i)
            if not r.ok:
                ctx.count("rejected_by_nmfu" if r.status == "rejected" else "internal_error_dropped")
                if len(ctx.extra.setdefault("rejected_examples", [])) < 5:
                    ctx.extra["rejected_examples"].append({"regex": psrc, "why": (r.exc_type, (r.exc_msg or "")[:80])})
                continue
            p = cdrv.Prog(r, meta={"src": src, "args": args, "sem": sem, "regex": psrc, "extra": extra_strings})
            progs.append(p)
        if not progs:
            continue
        batch = cdrv.Batch(progs).build()
        runs = []
        plan = {}
        for p in batch.live:
            sem = p.meta["sem"]
            parts = rx.partition(sem.sets())
            reps = sorted(min(x) for x in parts)
            # a byte outside every set, and the extremes
            if len(reps) > max_reps:
                reps = sorted(rng.sample(reps, max_reps))
            L = 1
            while len(reps) ** (L + 1) <= strings_budget and L < 6:
                L += 1
            words = [bytes(w) for w in itertools.product(reps, repeat=L)] + [bytes(w) for w in (p.meta["extra"] or [])]
            for si, w in enumerate(words):
                lines = ["START", "ENDCOPY"]
                for b in w:
                    lines.append("FEED %02x" % b)
                    lines.append("ENDCOPY")
                rid = "%s.s%d" % (p.name, si)
                runs.append((rid, p, lines))
                plan[rid] = ("str", p, bytes(w))
            # sweeps from the first derivative states in BFS order
            seen = {sem.start(): b""}
            order = [sem.start()]
            qi = 0
            while qi < len(order) and len(order) < sweep_states:
                q = order[qi]
                qi += 1
                for b in reps:
                    d = sem.step(q, b)
                    if d is not None and d not in seen:
                        seen[d] = seen[q] + bytes([b])
                        order.append(d)
            for wi, q in enumerate(order[:sweep_states]):
                acc = seen[q]
                rid = "%s.w%d" % (p.name, wi)
                runs.append((rid, p, ["QUIETOK 1", "START"] + (["FEED " + acc.hex()] if acc else []) + ["SWEEP"]))
                plan[rid] = ("sweep", p, acc)
        res = batch.run(runs, timeout=900)
        ctx.count("binaries")
        for rid, (kind, p, w) in plan.items():
            run_ = res.get(rid)
            if run_ is None:
                ctx.count("runs_missing")
                continue
            sem = p.meta["sem"]
            base = {"regex": p.meta["regex"], "nmfu_source": p.meta["src"], "nmfu_args": p.meta["args"]}
            if run_.abort:
                ctx.violation(KEY + ":sanitizer:" + run_.abort[0], "sanitizer report while matching: %s" % (run_.abort[1],), dict(base, input_hex=w.hex(), stderr=run_.stderr))
                continue
            ctx.evaluations += 1
            if kind == "str":
                rets = [e for e in run_.events if e[0] == "R"]
                # expected sequence
                q = sem.start()
                exp = [("C", 2 if sem.accepting(q) else 1, None)]
                for i, b in enumerate(w):
                    q = sem.step(q, b)
                    if q is None:
                        exp.append(("F", 1, i))
                        break
                    exp.append(("F", 0, i + 1))
                    exp.append(("C", 2 if sem.accepting(q) else 1, None))
                got = [(e[1], e[3], e[4] if e[1] == "F" else None) for e in rets if e[1] in ("F", "C")]
                ctx.count("prefix_observations", len(got))
                if any(x[0] == "C" and x[1] == 2 for x in exp):
                    ctx.nontrivial((p.meta["regex"], w.hex()))
                if got[:len(exp)] != exp:
                    j = next((i for i in range(len(exp)) if i >= len(got) or got[i] != exp[i]), len(exp))
                    e_, g_ = exp[j], (got[j] if j < len(got) else None)
                    nbytes = sum(1 for x in exp[:j + 1] if x[0] == "F")
                    if e_[0] == "C":
                        what = "accepts-nonmember" if (g_ and g_[1] == 2) else "rejects-member"
                    elif g_ and g_[0] == "F" and g_[1] != e_[1]:
                        what = "fails-while-live" if g_[1] == 1 else "no-fail-when-dead"
                    else:
                        what = "fail-pointer"
                    if classify:
                        what = classify(what, p.meta["regex"]) or what
                    ctx.violation(KEY + ":" + what, "regex %s on prefix %r: expected %s, observed %s" % (p.meta["regex"], w[:nbytes], e_, g_),
                                  dict(base, input_hex=w.hex(), expected=exp, observed=got))
            else:
                q = sem.start()
                for b in w:
                    q = sem.step(q, b)
                sw = next((e for e in run_.events if e[0] == "W"), None)
                if sw is None or len(sw[1]) != 256:
                    ctx.count("sweep_missing")
                    continue
                ctx.count("sweeps")
                ctx.count("byte_steps_swept", 256)
                ctx.nontrivial((p.meta["regex"], "sweep", w.hex()))
                for b in range(256):
                    d = sem.step(q, b)
                    code, ecode, adv = sw[1][b]
                    if d is None:
                        want = (1, 15, 0)
                    else:
                        want = (0, 2 if sem.accepting(d) else 1, 1)
                    if (code, ecode, adv) != want:
                        what = "byte-class:" + ("accepts-extra-byte" if d is None else ("rejects-byte" if code == 1 else "acceptance-after-byte"))
                        if classify:
                            what = classify(what, p.meta["regex"]) or what
                        ctx.violation(KEY + ":" + what, "regex %s after %r: byte 0x%02x expected (feed,end,advance)=%s observed %s" %
                                      (p.meta["regex"], w, b, want, (code, ecode, adv)), dict(base, prefix_hex=w.hex(), byte=b))
                        break
        if len(ctx.samples) < 4 and batch.live:
            p = batch.live[0]
            ctx.sample({"regex": p.meta["regex"], "args": p.meta["args"]})
        batch.cleanup()
