"""Literal oracles: what an nmfu spelling denotes (from the documentation's escape list) and a C string-literal decoder."""

NMFU_ESC = {"n": 10, "r": 13, "t": 9, "b": 8, "0": 0, '"': 34, "\\": 92}


def decode_nmfu_string(body):
    """body: text between the quotes of an nmfu string literal -> bytes. Documented escapes only."""
    out = bytearray()
    i = 0
    while i < len(body):
        c = body[i]
        if c != "\\":
            out.append(ord(c) & 0xFF if ord(c) < 256 else 0x3F)
            i += 1
            continue
        e = body[i + 1]
        if e == "x":
            out.append(int(body[i + 2:i + 4], 16))
            i += 4
        else:
            out.append(NMFU_ESC[e])
            i += 2
    return bytes(out)


def decode_c_string(lit):
    """lit: a C string literal *with* its quotes (adjacent literals concatenated), C lexical rules:
    hex escapes are greedy, octal up to 3 digits, simple escapes. Returns bytes (without the implicit NUL)."""
    out = bytearray()
    i = 0
    n = len(lit)
    while i < n:
        # skip whitespace between adjacent literals
        while i < n and lit[i] in " \t\n":
            i += 1
        if i >= n:
            break
        if lit[i] != '"':
            raise ValueError("not a string literal at %d: %r" % (i, lit[i:i + 10]))
        i += 1
        while True:
            if i >= n:
                raise ValueError("unterminated literal")
            c = lit[i]
            if c == '"':
                i += 1
                break
            if c != "\\":
                out += c.encode("utf-8")    # source bytes as the compiler sees them
                i += 1
                continue
            e = lit[i + 1]
            if e == "x":
                j = i + 2
                v = 0
                while j < n and lit[j] in "0123456789abcdefABCDEF":
                    v = v * 16 + int(lit[j], 16)
                    j += 1
                if j == i + 2:
                    raise ValueError("\\x with no digits")
                if v > 255:
                    raise OverflowError("hex escape out of range: %s" % lit[i:j])
                out.append(v)
                i = j
            elif e in "01234567":
                j = i + 1
                v = 0
                k = 0
                while j < n and k < 3 and lit[j] in "01234567":
                    v = v * 8 + int(lit[j])
                    j += 1
                    k += 1
                out.append(v & 0xFF)
                i = j
            else:
                table = {"n": 10, "r": 13, "t": 9, "b": 8, "a": 7, "f": 12, "v": 11, "\\": 92, '"': 34, "'": 39, "?": 63}
                if e not in table:
                    raise ValueError("unknown escape \\%s" % e)
                out.append(table[e])
                i += 2
    return bytes(out)
