"""Shared plumbing: dependency bootstrap, run context, evidence, violations, known findings."""
import atexit
import hashlib
import json
import os
import random
import shutil
import subprocess
import sys
import tempfile
import time

VERIF = os.path.dirname(os.path.dirname(os.path.abspath(__file__)))
REPO = os.environ.get("VERIF_REPO", "/repo")
DEPS = os.path.join(VERIF, ".deps")
WHEELS = "/opt/veriftools/wheels"


def ensure_deps():
    """icontract + jsonschema live in git-ignored .deps; a fresh restore has none."""
    if not os.path.isdir(os.path.join(DEPS, "icontract")) or not os.path.isdir(os.path.join(DEPS, "jsonschema")):
        subprocess.run([sys.executable, "-m", "pip", "install", "-q", "--no-index", "--find-links", WHEELS,
                        "--target", DEPS, "icontract", "jsonschema"], check=True,
                       stdout=subprocess.DEVNULL, stderr=subprocess.DEVNULL)
    if DEPS not in sys.path:
        sys.path.insert(0, DEPS)


_tmpdirs = []


def mktmp(prefix="nmfu-verif-"):
    d = tempfile.mkdtemp(prefix=prefix)
    _tmpdirs.append(d)
    return d


def _cleanup():
    for d in _tmpdirs:
        shutil.rmtree(d, ignore_errors=True)


atexit.register(_cleanup)


def load_known():
    p = os.path.join(VERIF, "known_findings.json")
    if not os.path.exists(p):
        return {"findings": [], "fixed": []}
    with open(p) as f:
        return json.load(f)


class Ctx:
    """One check run. Collects counters, samples, violations; writes evidence; decides the exit code."""

    def __init__(self, pid, tier, level="exploration"):
        self.pid = pid
        self.tier = tier
        self.level = level
        self.seed = int(os.environ.get("VERIF_SEED", "0"))
        self.rng = random.Random(f"{pid}-{self.seed}")
        self.t0 = time.time()
        self.cov = {}            # counters (measured)
        self.samples = []
        self.distinct = set()    # distinct non-trivial case keys
        self.evaluations = 0
        self.violations = []     # (key, what, replay_path)
        self.known_hits = {}     # key -> count
        self.inconclusive = []   # reasons
        self.assumptions = []
        self.rule = ""
        self.extra = {}
        self.known = [k for k in load_known()["findings"] if k["property"] == pid]
        self._vkeys = {}
        self.quick = tier == "quick"

    # -- counters ------------------------------------------------------
    def count(self, name, n=1):
        self.cov[name] = self.cov.get(name, 0) + n

    def sample(self, obj, limit=6):
        if len(self.samples) < limit:
            self.samples.append(obj)

    def nontrivial(self, key):
        if not isinstance(key, (str, bytes)):
            key = json.dumps(key, sort_keys=True, default=str)
        if isinstance(key, str):
            key = key.encode()
        self.distinct.add(hashlib.blake2b(key, digest_size=8).digest())

    # -- verdict pieces -----------------------------------------------
    def violation(self, key, what, replay):
        """key: mechanism key from a classifier (construct + symptom). replay: dict written to replays/."""
        for k in self.known:
            if k["key"] == key:
                self.known_hits[key] = self.known_hits.get(key, 0) + 1
                return False
        n = self._vkeys.get(key, 0)
        self._vkeys[key] = n + 1
        if n >= 3:       # at most three replays per mechanism
            self.violations.append((key, what, None))
            return True
        d = os.path.join(VERIF, "replays", self.pid)
        os.makedirs(d, exist_ok=True)
        safe = "".join(c if c.isalnum() or c in "-_." else "_" for c in key)[:80]
        path = os.path.join(d, f"{safe}-{n}.json")
        replay = dict(replay)
        replay.update({"property": self.pid, "key": key, "what": what, "seed": self.seed, "tier": self.tier,
                       "hashseed": os.environ.get("PYTHONHASHSEED")})
        with open(path, "w") as f:
            json.dump(replay, f, indent=1, default=str)
        self.violations.append((key, what, path))
        print(f"VIOLATION property={self.pid} replay={path}", flush=True)
        print(f"  key={key}: {what}", flush=True)
        return True

    def inconclusive_if(self, cond, reason):
        if cond:
            self.inconclusive.append(reason)

    def floor(self, name, minimum):
        """Deciding-counter floor: below it the run observed too little to say 'held'."""
        v = self.cov.get(name, 0)
        if v < minimum:
            self.inconclusive.append(f"{name}={v} below floor {minimum}")

    # -- finish -------------------------------------------------------
    def finish(self):
        ensure_deps()
        import jsonschema
        for key, n in self.known_hits.items():
            k = next(k for k in self.known if k["key"] == key)
            print(f"KNOWN-FINDING: property={self.pid} {k['what']} [key={key}, seen {n}x]", flush=True)
        cov = dict(self.cov)
        cov.update(self.extra)
        cov["evaluations"] = max(self.evaluations, 1) if self.evaluations else 0
        cov["distinct_nontrivial"] = len(self.distinct)
        cov["rule"] = self.rule
        cov["samples"] = self.samples if self.samples else []
        cov["known_findings_seen"] = dict(self.known_hits)
        cov["inconclusive"] = self.inconclusive
        ev = {
            "property_id": self.pid, "tier": self.tier, "seed": self.seed, "level": self.level,
            "coverage": cov, "assumptions": self.assumptions,
            "wall_s": round(time.time() - self.t0, 2), "violations": len(self.violations),
        }
        # evidence/ describes runs against /repo itself; runs against a scratch tree (seeded changes, reverts) write elsewhere
        evdir = os.path.join(VERIF, "evidence") if os.path.realpath(REPO) == "/repo" else os.path.join(VERIF, ".tmp", "evidence-scratch")
        os.makedirs(evdir, exist_ok=True)
        path = os.path.join(evdir, f"{self.pid}.json")
        with open(path, "w") as f:
            json.dump(ev, f, indent=1, default=str)
        try:
            with open("/root/.vp/EVIDENCE.schema.json") as f:
                schema = json.load(f)
            jsonschema.validate(json.loads(json.dumps(ev, default=str)), schema)
        except FileNotFoundError:
            pass
        except jsonschema.ValidationError as e:
            print(f"INCONCLUSIVE property={self.pid} evidence does not validate: {e.message}", flush=True)
            return 2
        summary = {k: v for k, v in cov.items() if isinstance(v, (int, float)) and not isinstance(v, bool)}
        print(f"[{self.pid} {self.tier} seed={self.seed}] {ev['wall_s']}s " + " ".join(f"{k}={v}" for k, v in sorted(summary.items())), flush=True)
        if self.violations:
            return 1
        if self.inconclusive:
            for r in self.inconclusive:
                print(f"INCONCLUSIVE property={self.pid} {r}", flush=True)
            return 2
        return 0
