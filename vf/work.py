"""Workload: program pools (generated + corpus), input generation, batching helpers."""
import glob
import itertools
import os
import shlex

from . import cdrv, gen, nm, rx
from .common import REPO


# ---------------------------------------------------------------------------------------------------
# corpus
# ---------------------------------------------------------------------------------------------------
def corpus(include_examples=True, include_tests=True):
    """[(path, source, args, seeds)] seeds = byte strings from // ok: / bad: / finish- lines"""
    out = []
    files = []
    if include_examples:
        files += sorted(glob.glob(os.path.join(REPO, "example", "*.nmfu")))
    if include_tests:
        files += sorted(glob.glob(os.path.join(REPO, "example", "test", "*.ok.nmfu")))
    for fn in files:
        with open(fn) as f:
            src = f.read()
        lines = src.splitlines()
        args = []
        if lines and lines[0].startswith("// args: "):
            args = shlex.split(lines[0][len("// args: "):])
        seeds = []
        for ln in lines:
            for pre in ("// ok: ", "// bad: "):
                if ln.startswith(pre):
                    seeds.append(ln[len(pre):].encode("latin-1", "replace"))
            if ln.startswith("// finish-"):
                rest = ln[len("// finish-"):]
                if " " in rest:
                    seeds.append(rest[rest.index(" ") + 1:].encode("latin-1", "replace"))
        out.append((fn, src, args, seeds))
    return out


CORPUS_SEEDS = {
    "http.nmfu": [b"GET /index.html HTTP/1.1\r\nHost: example.com\r\nAccept-Encoding: gzip, deflate\r\nContent-Length: 12\r\nIf-None-Match: \"abc\"\r\n\r\n",
                  b"POST /a HTTP/1.1\r\nContent-Length: 3\r\n\r\n", b"PUT / HTTP/1.1\r\n\r\n", b"GET /" + b"a" * 40 + b" HTTP/1.1\r\n\r\n"],
    "lexer.nmfu": [b"(define x 12) (display -3)\n", b"(a_b1 critical ) 77 display1\n", b"define(display)\n  x9 -1 ("],
}


# ---------------------------------------------------------------------------------------------------
# inputs
# ---------------------------------------------------------------------------------------------------
def dfa_alphabet(dfa):
    """class representatives of the partition induced by every transition label of the compiled machine (workload only)"""
    sets = set()
    for st in dfa.states:
        for t in st.transitions:
            s = frozenset(ord(c) for c in t.on_values if isinstance(c, str) and len(c) == 1 and ord(c) < 256)
            if s:
                sets.add(s)
    parts = rx.partition(sets)
    return sorted(min(p) for p in parts)


def dfa_walk(m, dfa, rng, maxlen=40, p_good=0.93):
    """random walk over the compiled machine choosing mostly non-error symbols: long plausible inputs (workload only)"""
    out = bytearray()
    st = dfa.starting_state
    Else, End = m.DFTransition.Else, m.DFTransition.End
    steps = 0
    while len(out) < maxlen and steps < maxlen * 6:
        steps += 1
        if st is None:
            break
        if isinstance(st, m.DFConditionPoint):
            ts = list(st.transitions)
            if not ts:
                break
            st = rng.choice(ts).target
            continue
        ts = list(st.transitions)
        if not ts:
            break
        good = [t for t in ts if not t.error_handling]
        pool = good if (good and rng.random() < p_good) else ts
        t = rng.choice(pool)
        local = set()
        for x in ts:
            for c in x.on_values:
                if isinstance(c, str):
                    local.add(ord(c))
        syms = [ord(c) for c in t.on_values if isinstance(c, str) and ord(c) < 256]
        if Else in t.on_values:
            others = [b for b in (list(range(97, 123)) + list(range(48, 58)) + [32, 59, 10, 0, 255, 128]) if b not in local]
            if others:
                syms = syms + [rng.choice(others)]
        if not syms:
            if End in t.on_values:
                break
            st = t.target if t.is_fallthrough else None
            continue
        c = rng.choice(syms)
        # dispatch c, following fall-throughs (conditions at random)
        cur = st
        for _ in range(50):
            if cur is None:
                break
            if isinstance(cur, m.DFConditionPoint):
                tt = rng.choice(cur.transitions) if cur.transitions else None
            else:
                try:
                    tt = cur[chr(c)]
                except Exception:
                    tt = None
            if tt is None:
                cur = None
                break
            tgt = tt.target
            for a in tt.actions:
                try:
                    if a.get_target_override_mode() == m.ActionOverrideMode.ALWAYS_GOTO_OTHER:
                        tgt = a.get_target_override_targets()[0]
                except Exception:
                    pass
            cur = tgt
            if not tt.is_fallthrough:
                break
        out.append(c)
        st = cur
    return bytes(out)


def mutate(rng, bs, alphabet):
    bs = bytearray(bs)
    if not bs:
        return bytes([rng.choice(alphabet)])
    k = rng.randrange(4)
    i = rng.randrange(len(bs))
    if k == 0:
        bs[i] = rng.choice(alphabet)
    elif k == 1:
        bs.insert(i, rng.choice(alphabet))
    elif k == 2:
        del bs[i]
    else:
        bs = bs[:i]
    return bytes(bs)


def all_strings(reps, maxcount):
    """every string over reps of length 0..L with L maximal s.t. the total stays <= maxcount"""
    n = len(reps)
    L = 0
    tot = 1
    while True:
        nxt = tot + n ** (L + 1)
        if nxt > maxcount or L >= 12:
            break
        tot = nxt
        L += 1
    out = []
    for ln in range(0, L + 1):
        for t in itertools.product(reps, repeat=ln):
            out.append(bytes(t))
    return out, L


def inputs_for(res, rng, prog_ast=None, nwalk=30, maxlen=40, enum_budget=300, seeds=()):
    """mixed input set for one accepted compilation: enumerated short strings + guided walks + mutations + seeds"""
    m = nm.nmfu()
    dfa = res.dctx.dfa
    reps = dfa_alphabet(dfa)
    if prog_ast is not None:
        reps = sorted(set(reps) | set(gen.byte_classes(prog_ast)))
    if len(reps) > 14:
        reps = sorted(rng.sample(reps, 14))
    short, L = all_strings(reps, enum_budget)
    ins = set(short)
    walks = []
    for _ in range(nwalk):
        w = dfa_walk(m, dfa, rng, maxlen=rng.choice([6, 12, maxlen]))
        walks.append(w)
        ins.add(w)
        for _ in range(2):
            ins.add(mutate(rng, w, reps))
    for s in seeds:
        ins.add(bytes(s))
        ins.add(mutate(rng, bytes(s), reps))
    ins.discard(b"")
    return sorted(ins, key=lambda b: (len(b), b)), reps, L


# ---------------------------------------------------------------------------------------------------
# program pools
# ---------------------------------------------------------------------------------------------------
def generated_pool(rng, n_accept, profile=None, args_fn=None, name_prefix="p", max_tries=None, on_reject=None):
    """generate programs until n_accept are accepted; returns [(prog_ast, src, args, Result)] and stats"""
    out = []
    stats = {"generated": 0, "accepted": 0, "rejected": 0, "internal": 0}
    max_tries = max_tries or n_accept * 6 + 20
    while len(out) < n_accept and stats["generated"] < max_tries:
        g = gen.Gen(rng, profile)
        ast = g.program()
        src = gen.prog_src(ast)
        args = list(ast.args) + (args_fn(rng, ast) if args_fn else [])
        stats["generated"] += 1
        r = nm.compile_source(src, args, name="%s%d" % (name_prefix, len(out)))
        if r.ok:
            stats["accepted"] += 1
            out.append((ast, src, args, r))
        else:
            stats["rejected" if r.status == "rejected" else "internal"] += 1
            if on_reject:
                on_reject(ast, src, args, r)
    return out, stats


def chunked(seq, n):
    for i in range(0, len(seq), n):
        yield seq[i:i + n]
