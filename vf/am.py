"""Abstract machine over the compiled DFA: an executor written from what the machine *means* (what --dump dfa draws),
used as the specification side of C06 only.

In state s on symbol c (0..255 or END): take the transition listing c, else the Else transition; a condition point takes
the first conditional transition whose condition holds. Run the actions in order (append overflow: continue at the
handler with the same symbol; break: after-break actions, continue at the loop end, skip the rest; finish / yield: return).
A fall-through transition re-dispatches the symbol at its target, any other consumes it. Entering an accepting state that
has nothing but error transitions left returns DONE at once (unless strict-done).
"""
from . import carith, gen, nm

N = gen.N
END = 256


class Stuck(Exception):
    pass


class Unknown(Exception):
    pass


def conv_expr(m, e):
    """nmfu IntegerExpr -> harness expression AST (for carith)"""
    T = m.OutputStorageType
    if isinstance(e, m.LiteralIntegerExpr):
        if e.typ == T.ENUM:
            return N("num", v=e.model_ref.enum_values.index(e.value), text="")
        if e.typ == T.BOOL:
            return N("bool", v=bool(e.value))
        return N("num", v=int(e.value), text="")
    if isinstance(e, m.OutIntegerExpr):
        return N("var", name=e.ref.name)
    if isinstance(e, m.StringLengthIntegerExpr):
        return N("len", name=e.ref.name)
    if isinstance(e, m.StringRefIntegerExpr):
        return N("idx", name=e.ref.name, e=conv_expr(m, e.index))
    if isinstance(e, m.LastCharIntegerExpr):
        return N("last")
    if isinstance(e, m.SumIntegerExpr):
        r = conv_expr(m, e.children[0])
        for c, neg in zip(e.children[1:], e.negate[1:]):
            r = N("bin", op="-" if neg else "+", a=r, b=conv_expr(m, c))
        return r
    if isinstance(e, m.MulIntegerExpr):
        r = conv_expr(m, e.children[0])
        for c, op in zip(e.children[1:], e.divide[1:]):
            r = N("bin", op=op.value, a=r, b=conv_expr(m, c))
        return r
    if isinstance(e, m.CompareIntegerExpr):
        return N("bin", op=e.op.value, a=conv_expr(m, e.left), b=conv_expr(m, e.right))
    if isinstance(e, m.BitShiftIntegerExpr):
        return N("bin", op="<<" if e.towards_left else ">>", a=conv_expr(m, e.left), b=conv_expr(m, e.right))
    if isinstance(e, m.BitwiseIntegerExpr):
        r = conv_expr(m, e.children[0])
        for c in e.children[1:]:
            r = N("bin", op=e.op.value, a=r, b=conv_expr(m, c))
        return r
    if isinstance(e, (m.DisjunctionIntegerExpr, m.ConjunctionIntegerExpr)):
        op = "||" if isinstance(e, m.DisjunctionIntegerExpr) else "&&"
        r = conv_expr(m, e.children[0])
        for c in e.children[1:]:
            r = N("bin", op=op, a=r, b=conv_expr(m, c))
        return r
    raise Unknown("expression %r" % e)


class Machine:
    def __init__(self, res):
        self.m = m = nm.nmfu()
        self.dfa = res.dctx.dfa
        self.states = list(self.dfa.states)
        self.idx = {s: i for i, s in enumerate(self.states)}
        self.fail = res.dctx.generic_fail_state
        self.accepting = set(self.dfa.accepting_states)
        PF = m.ProgramFlag
        self.strict_done = bool(res.flags[PF.STRICT_DONE_TOKEN_GENERATION])
        self.spec = list(res.cctx.state_object_spec)
        T = m.OutputStorageType
        # harness-side declarations for carith
        self.outs = []
        for o in self.spec:
            if o.type == T.INT:
                self.outs.append(N("out", name=o.name, typ="int", signed=o.int_signed, width=o.int_width))
            elif o.type == T.BOOL:
                self.outs.append(N("out", name=o.name, typ="bool"))
            elif o.type == T.ENUM:
                self.outs.append(N("out", name=o.name, typ="enum", values=list(o.enum_values)))
            elif o.type == T.STR:
                self.outs.append(N("out", name=o.name, typ="str" if o.str_null else "ustr", size=o.str_size))
            else:
                sz = {"uint8_t": 1, "int8_t": 1, "uint16_t": 2, "int16_t": 2, "uint32_t": 4, "int32_t": 4, "uint64_t": 8, "int64_t": 8}.get(o.raw_underlying)
                if sz is None:
                    raise Unknown("raw type " + o.raw_underlying)
                self.outs.append(N("out", name=o.name, typ="raw", raw_type=o.raw_underlying, raw_size=sz, size=sz))
        self.by = {o.name: o for o in self.outs}
        self.finish_codes = list(res.cctx.finish_codes)
        self.yield_codes = list(res.cctx.yield_codes)

    # -- store: name -> int | [bytearray(total size), counter] -------------------------------------------------
    def cap(self, o):
        if o.typ == "str":
            return o.size - 1
        return o.size

    def env(self, store, inval):
        vals = {}
        e = carith.Env(self.outs, vals, inval)
        for o in self.outs:
            x = store[o.name]
            if isinstance(x, list):
                vals[o.name] = bytes(x[0][:x[1]])
                e.full[o.name] = bytes(x[0])
            else:
                vals[o.name] = x
        return e

    def ev(self, expr, store, inval):
        try:
            return carith.ev(conv_expr(self.m, expr), self.env(store, inval))
        except carith.UB:
            raise Unknown("UB in user expression")

    def cond(self, c, store, inval):
        m = self.m
        if isinstance(c, m.ConstantCondition):
            return bool(c.get_literal_result())
        t, v = self.ev(c.expr, store, inval)
        return carith.truthy(t, v)

    # -- actions -------------------------------------------------------------------------------------------------
    def act(self, a, st, inval, hook_inval):
        """returns None | ('return', code) | ('redirect', state) | ('break', state)"""
        m = self.m
        store = st["store"]
        if isinstance(a, m.CustomFinishAction):
            return ("return", "FINISH_" + a.result_code)
        if isinstance(a, m.FinishAction):
            return ("return", "DONE", "latch")      # a finish statement: the machine stays finished (state index = number of states)
        if isinstance(a, m.CustomYieldAction):
            return ("return", "YIELD_" + a.result_code)
        if isinstance(a, m.SetTo):
            o = self.by[a.into_storage.name]
            t, v = self.ev(a.value_expr, store, inval)
            if o.typ == "bool":
                store[o.name] = carith.store((1, False), t, v)
            elif o.typ == "enum":
                store[o.name] = carith.wrap(v, carith.UINT)
            else:
                store[o.name] = carith.store(carith.ctype_of_out(o), t, v)
            return None
        if isinstance(a, m.SetToStr):
            o = self.by[a.into_storage.name]
            x = store[o.name]
            val = a.value_expr
            bs = bytes(val) if isinstance(val, (bytes, bytearray)) else bytes(min(ord(c), 255) for c in val)
            x[0][:len(bs)] = bs
            x[1] = len(bs)
            if o.typ == "str":
                x[0][len(bs)] = 0
            return None
        if isinstance(a, m.DeleteBuf):
            o = self.by[a.into_storage.name]
            x = store[o.name]
            x[1] = 0
            if o.typ == "str":
                x[0][0] = 0
            return None
        if isinstance(a, (m.AppendTo, m.AppendCharTo)):
            o = self.by[a.into_storage.name]
            x = store[o.name]
            if x[1] >= self.cap(o):
                return ("redirect", a.end_target)
            if isinstance(a, m.AppendTo):
                byte = inval
            else:
                t, v = self.ev(a.append_value, store, inval)
                byte = v & 0xFF
            x[0][x[1]] = byte & 0xFF
            x[1] += 1
            if o.typ == "str":
                x[0][x[1]] = 0
            return None
        if isinstance(a, m.CallHook):
            st["hooks"].append((a.name, hook_inval))
            return None
        if isinstance(a, m.ConditionalAction):
            for c in a.conditions:
                if self.cond(c, store, inval):
                    for sub in a.sub_actions[c]:
                        r = self.act(sub, st, inval, hook_inval)
                        if r is not None:
                            return r
                    break
            return None
        if isinstance(a, m.BreakAction):
            for sub in a.replacement_actions():
                r = self.act(sub, st, inval, hook_inval)
                if r is not None:
                    return r
            return ("break", a.refers_to.end_state)
        raise Unknown("action %r" % a)

    # -- one symbol ----------------------------------------------------------------------------------------------
    def step(self, k, sym, store):
        """-> dict(code, state, store, hooks, consumed). sym: 0..255 or END"""
        m = self.m
        st = {"store": store, "hooks": []}
        s = self.states[k]
        is_end = sym == END
        inval = 255 if is_end else sym
        key = m.DFTransition.End if is_end else chr(sym)
        guard = 0
        while True:
            guard += 1
            if guard > 4 * len(self.states) + 8:
                raise Stuck("non-consuming cycle")
            if s is self.fail:
                return self.result("FAIL", s, st, False)
            if isinstance(s, m.DFConditionPoint):
                t = None
                for ct in s.transitions:
                    if self.cond(ct.condition, store, inval):
                        t = ct
                        break
                if t is None:
                    return self.result("FAIL", s, st, False)
            else:
                if s in self.accepting and s.transitions and all(x.error_handling for x in s.transitions):
                    # the parser has finished: only error transitions are left in this accepting state
                    return self.result("DONE", s, st, False)
                t = s[key]
                if t is None:
                    if s in self.accepting:
                        return self.result("DONE", s, st, False)
                    raise Stuck("no transition for the symbol in a non-accepting state")
            target = t.target
            nxt = target
            skip = False
            for a in t.actions:
                r = self.act(a, st, inval, inval)
                if r is None:
                    continue
                if r[0] == "return":
                    # the machine is now at the transition's target; the symbol counts as consumed unless the transition falls through
                    res = self.result(r[1], nxt if nxt in self.idx else s, st, (not t.is_fallthrough) and not is_end)
                    if len(r) > 2:
                        res["state"] = len(self.states)
                    return res
                if r[0] == "redirect":
                    s = r[1]
                    skip = "redirect"
                    break
                if r[0] == "break":
                    nxt = r[1]
                    st["via_break"] = True
                    break
            if skip == "redirect":
                continue
            if t.is_fallthrough:
                if nxt is None or nxt not in self.idx:
                    # falls through to nothing: the parser ends here
                    return self.result("DONE" if s in self.accepting else ("FAIL" if is_end else "OK"), s, st, False)
                s = nxt
                continue
            # consuming transition
            if nxt is None or nxt not in self.idx:
                return self.result("DONE" if s in self.accepting else ("FAIL" if is_end else "OK"), s, st, False)
            if is_end:
                return self.result("DONE" if nxt in self.accepting else "FAIL", nxt, st, False)
            if nxt in self.accepting and not self.strict_done and all(x.error_handling for x in nxt.transitions):
                return self.result("DONE", nxt, st, False, done_now="via-break" if st.get("via_break") else True)
            return self.result("OK", nxt, st, True)

    def result(self, code, s, st, consumed, done_now=False):
        return {"code": code, "state": self.idx.get(s, -1), "store": st["store"], "hooks": st["hooks"], "consumed": consumed, "done_now": done_now}
