"""Regex oracle: syntax trees for the documented dialect, a printer, and Brzozowski derivatives over byte sets.

Written from docs/user-ref/parser.md (section NMFU Regexes); shares no code with nmfu.RegexMatch.
Symbols are ints 0..255; END (end of input) is the int 256 and belongs to no byte set, so '.', inverted sets and
classes can never consume it.
"""
import string

END = 256
ALL = frozenset(range(256))

# ---------------------------------------------------------------------------------------------------
# semantic regexes (hash-consed tuples) with smart constructors
# ('empty',) matches nothing; ('eps',) matches ""; ('set', frozenset); ('cat', a, b); ('alt', frozenset{...});
# ('star', a); ('end',) matches the END symbol only.
# ---------------------------------------------------------------------------------------------------
EMPTY = ("empty",)
EPS = ("eps",)
ENDSYM = ("end",)


def mkset(s):
    s = frozenset(s)
    return ("set", s) if s else EMPTY


def cat(a, b):
    if a is EMPTY or b is EMPTY or a == EMPTY or b == EMPTY:
        return EMPTY
    if a == EPS:
        return b
    if b == EPS:
        return a
    if a[0] == "cat":           # right-nest
        return cat(a[1], cat(a[2], b))
    return ("cat", a, b)


def alt(*xs):
    items = set()
    for x in xs:
        if x == EMPTY:
            continue
        if x[0] == "alt":
            items |= x[1]
        else:
            items.add(x)
    # merge plain sets
    sets = [x for x in items if x[0] == "set"]
    if len(sets) > 1:
        u = frozenset().union(*(x[1] for x in sets))
        items -= set(sets)
        items.add(("set", u))
    if not items:
        return EMPTY
    if len(items) == 1:
        return next(iter(items))
    return ("alt", frozenset(items))


def star(a):
    if a == EMPTY or a == EPS:
        return EPS
    if a[0] == "star":
        return a
    return ("star", a)


def seq(*xs):
    r = EPS
    for x in reversed(xs):
        r = cat(x, r)
    return r


def lit(bs):
    return seq(*[mkset([b]) for b in bs])


def casei(bs):
    out = []
    for b in bs:
        c = chr(b)
        if c in string.ascii_letters:
            out.append(mkset({ord(c.lower()), ord(c.upper())}))
        else:
            out.append(mkset({b}))
    return seq(*out)


_null_cache = {}


def nullable(r):
    t = r[0]
    if t == "eps" or t == "star":
        return True
    if t in ("empty", "set", "end"):
        return False
    v = _null_cache.get(r)
    if v is None:
        if t == "cat":
            v = nullable(r[1]) and nullable(r[2])
        else:
            v = any(nullable(x) for x in r[1])
        _null_cache[r] = v
    return v


_d_cache = {}


def deriv(r, c):
    """derivative by symbol c (0..255 or END)"""
    t = r[0]
    if t in ("empty", "eps"):
        return EMPTY
    if t == "set":
        return EPS if c in r[1] else EMPTY
    if t == "end":
        return EPS if c == END else EMPTY
    k = (r, c)
    v = _d_cache.get(k)
    if v is not None:
        return v
    if t == "cat":
        v = cat(deriv(r[1], c), r[2])
        if nullable(r[1]):
            v = alt(v, deriv(r[2], c))
    elif t == "alt":
        v = alt(*[deriv(x, c) for x in r[1]])
    else:  # star
        v = cat(deriv(r[1], c), r)
    if len(_d_cache) > 2_000_000:
        _d_cache.clear()
    _d_cache[k] = v
    return v


def live(r):
    return r != EMPTY


_first_cache = {}


def first(r):
    """set of symbols c with deriv(r,c) live (END included as 256)"""
    v = _first_cache.get(r)
    if v is not None:
        return v
    t = r[0]
    if t in ("empty", "eps"):
        v = frozenset()
    elif t == "set":
        v = r[1]
    elif t == "end":
        v = frozenset([END])
    elif t == "cat":
        v = first(r[1])
        if nullable(r[1]):
            v = v | first(r[2])
    elif t == "alt":
        v = frozenset().union(*(first(x) for x in r[1]))
    else:
        v = first(r[1])
    _first_cache[r] = v
    return v


def only_eps(r):
    """no symbol continues r (r is eps-like)"""
    return not first(r)


def sets_in(r, acc=None):
    """all byte sets mentioned (for input-class partitioning)"""
    if acc is None:
        acc = set()
    t = r[0]
    if t == "set":
        acc.add(r[1])
    elif t == "cat":
        sets_in(r[1], acc); sets_in(r[2], acc)
    elif t == "alt":
        for x in r[1]:
            sets_in(x, acc)
    elif t == "star":
        sets_in(r[1], acc)
    return acc


def matches(r, bs):
    for b in bs:
        r = deriv(r, b)
        if r == EMPTY:
            return False
    return nullable(r)


_part_cache = {}


def partition(sets):
    """partition 0..255 by membership signature in the given sets; returns list of frozensets"""
    key = frozenset(sets)
    v = _part_cache.get(key)
    if v is not None:
        return v
    sig = [0] * 256
    for i, st in enumerate(key):
        bit = 1 << i
        for b in st:
            sig[b] |= bit
    groups = {}
    for b in range(256):
        groups.setdefault(sig[b], []).append(b)
    v = [frozenset(g) for g in groups.values()]
    if len(_part_cache) > 50000:
        _part_cache.clear()
    _part_cache[key] = v
    return v


# ---------------------------------------------------------------------------------------------------
# syntax trees (what the generator builds and prints)
#   ('ch', byte)            literal character (text form: printable, escaped if special; binary form: hex pair)
#   ('cls', 'w'|'W'|'d'|'D'|'s'|'S'|'n'|'t'|'r'|' ')
#   ('set', [items], inverted)   items: ('ch', b) | ('range', lo, hi) | ('cls', x)
#   ('any',)
#   ('grp', node)
#   ('alt', [nodes])  ('seq', [nodes])
#   ('op', node, '*'|'+'|'?')
#   ('rep', node, n, m)     m: int | None ({n,}) | 'exact' ({n})
# ---------------------------------------------------------------------------------------------------
CLASSES = {
    "w": frozenset(map(ord, string.ascii_letters + string.digits + "_")),
    "d": frozenset(map(ord, string.digits)),
    "s": frozenset(map(ord, string.whitespace)),
    "n": frozenset([10]), "t": frozenset([9]), "r": frozenset([13]), " ": frozenset([32]),
}
CLASSES["W"] = ALL - CLASSES["w"]
CLASSES["D"] = ALL - CLASSES["d"]
CLASSES["S"] = ALL - CLASSES["s"]

RX_SPECIAL = set(".?*()[]\\+{}|/")
SET_SPECIAL = set("-]\\/")


def to_sem(n):
    t = n[0]
    if t == "ch":
        return mkset([n[1]])
    if t == "cls":
        return mkset(CLASSES[n[1]])
    if t == "any":
        return mkset(ALL)
    if t == "set":
        s = set()
        for it in n[1]:
            if it[0] == "ch":
                s.add(it[1])
            elif it[0] == "range":
                s |= set(range(it[1], it[2] + 1))
            else:
                s |= CLASSES[it[1]]
        return mkset(ALL - s if n[2] else s)
    if t == "grp":
        return to_sem(n[1])
    if t == "alt":
        return alt(*[to_sem(x) for x in n[1]])
    if t == "seq":
        return seq(*[to_sem(x) for x in n[1]])
    if t == "op":
        a = to_sem(n[1])
        if n[2] == "*":
            return star(a)
        if n[2] == "+":
            return cat(a, star(a))
        return alt(a, EPS)
    if t == "rep":
        a = to_sem(n[1])
        lo, hi = n[2], n[3]
        parts = [a] * lo
        if hi is None:
            parts.append(star(a))
        elif hi != "exact":
            # documented expansion: x{n} x?{m-n}
            parts += [alt(a, EPS)] * max(0, hi - lo)
        return seq(*parts)
    raise ValueError(n)


def _pch_text(b, in_set=False):
    c = chr(b)
    if in_set:
        if c in SET_SPECIAL:
            return "\\" + c
        return c
    if c == "?":
        return "[?]"      # the dialect has no \\? escape
    if c in RX_SPECIAL:
        return "\\" + c
    if c == " ":
        # `\\ ` directly followed by one of wWdDsSntr is lexed by nmfu as that class (whitespace is skipped): keep it unambiguous
        return "[\\ ]"
    if c == "\n":
        return "\\n"
    if c == "\t":
        return "\\t"
    if c == "\r":
        return "\\r"
    return c


def text_char_ok(b, in_set=False):
    """can byte b be written as a raw character in a text regex (we stay within printable ASCII)"""
    c = chr(b)
    if b in (10, 9, 13):
        return not in_set or True
    if not (33 <= b < 127) and b != 32:
        return False
    if c in "\"'":
        return False
    if c == "/":
        return False
    if in_set and (c == "^" or c == " "):
        return False
    return True


def pr(n, binary=False):
    """print syntax tree body (without the slashes)"""
    t = n[0]
    if t == "ch":
        return ("%02x" % n[1]) if binary else _pch_text(n[1])
    if t == "cls":
        return "[\\ ]" if n[1] == " " else "\\" + n[1]
    if t == "any":
        return "."
    if t == "set":
        out = "[^" if n[2] else "["
        items = list(n[1])
        if not binary:
            items = [it for it in items if not (it[0] == "ch" and it[1] == 32) and not (it[0] == "cls" and it[1] == " ")] + \
                    [it for it in items if (it[0] == "ch" and it[1] == 32) or (it[0] == "cls" and it[1] == " ")][:1]
        for it in items:
            if it[0] == "ch":
                out += ("%02x" % it[1]) if binary else _set_item(it[1])
            elif it[0] == "range":
                out += (("%02x-%02x" % (it[1], it[2])) if binary else (_set_item(it[1]) + "-" + _set_item(it[2])))
            else:
                out += "\\" + it[1]
            if binary:
                out += " "
        return (out.rstrip() if binary else out) + "]"
    if t == "grp":
        return "(" + pr(n[1], binary) + ")"
    if t == "alt":
        return "|".join(pr(x, binary) for x in n[1])
    if t == "seq":
        return (" " if binary else "").join(pr(x, binary) for x in n[1])
    if t == "op":
        return pr(n[1], binary) + n[2]
    if t == "rep":
        lo, hi = n[2], n[3]
        if hi == "exact":
            return pr(n[1], binary) + "{%d}" % lo
        if hi is None:
            return pr(n[1], binary) + "{%d,}" % lo
        return pr(n[1], binary) + "{%d,%d}" % (lo, hi)
    raise ValueError(n)


def _set_item(b):
    c = chr(b)
    if c in SET_SPECIAL:
        return "\\" + c
    if b == 10:
        return "\\n"
    if b == 9:
        return "\\t"
    if b == 13:
        return "\\r"
    if b == 32:
        return "\\ "
    return c


def src(n, binary=False):
    return ("b/" if binary else "/") + pr(n, binary) + "/"


# ---------------------------------------------------------------------------------------------------
# random syntax trees
# ---------------------------------------------------------------------------------------------------
def is_atom(n):
    return n[0] in ("ch", "cls", "any", "set", "grp")


def gen(rng, alphabet, depth=3, binary=False, classes=True, size=None):
    """random regex syntax tree. alphabet: list of bytes usable as literal chars."""
    def atom(d):
        r = rng.random()
        if r < 0.5 or d <= 0:
            return ("ch", rng.choice(alphabet))
        if r < 0.62:
            return ("any",)
        if r < 0.72 and classes and not binary:
            return ("cls", rng.choice("wWdDsSnt "))
        if r < 0.9:
            items = []
            for _ in range(rng.randrange(1, 4)):
                q = rng.random()
                if q < 0.6:
                    items.append(("ch", rng.choice(alphabet)))
                elif q < 0.85:
                    lo, hi = sorted((rng.choice(alphabet), rng.choice(alphabet)))
                    if not binary and not (text_range_ok(lo) and text_range_ok(hi)):
                        items.append(("ch", lo))
                    else:
                        items.append(("range", lo, hi))
                elif classes and not binary:
                    items.append(("cls", rng.choice("wdsWDS")))
                else:
                    items.append(("ch", rng.choice(alphabet)))
            return ("set", items, rng.random() < 0.35)
        return ("grp", alt_(d - 1))

    def elem(d):
        a = atom(d)
        r = rng.random()
        if r < 0.55:
            return a
        if r < 0.85:
            return ("op", a, rng.choice("*+?"))
        lo = rng.randrange(0, 4)
        k = rng.random()
        if k < 0.4:
            return ("rep", a, lo, "exact")
        if k < 0.7:
            return ("rep", a, lo, lo + rng.randrange(0, 3))
        return ("rep", a, lo, None)

    def seq_(d):
        n = rng.choice([1, 1, 2, 2, 3])
        xs = [elem(d) for _ in range(n)]
        return xs[0] if len(xs) == 1 else ("seq", xs)

    def alt_(d):
        n = rng.choice([1, 1, 1, 2, 3])
        xs = [seq_(d) for _ in range(n)]
        return xs[0] if len(xs) == 1 else ("alt", xs)

    return alt_(depth)


def expanded_size(n):
    """number of atoms after unrolling counted repeats: a cheap predictor of how large nmfu's subset-construction automaton gets
    (its minimisation is a naive partition refinement, cubic-ish in that size)"""
    t = n[0]
    if t in ("ch", "any", "cls", "set"):
        return 1
    if t == "grp":
        return expanded_size(n[1])
    if t in ("alt", "seq"):
        return sum(expanded_size(x) for x in n[1])
    if t == "op":
        return expanded_size(n[1]) * (2 if n[2] == "+" else 1)
    if t == "rep":
        lo, hi = n[2], n[3]
        k = lo if hi == "exact" else (lo + 1 if hi is None else max(hi, 1))
        return expanded_size(n[1]) * max(k, 1)
    return 1


def has_empty_set(n):
    """does the syntax tree contain a character set that matches nothing (e.g. [^\\w\\W])?"""
    t = n[0]
    if t == "set":
        return to_sem(n) == EMPTY
    if t == "grp":
        return has_empty_set(n[1])
    if t in ("alt", "seq"):
        return any(has_empty_set(x) for x in n[1])
    if t in ("op", "rep"):
        return has_empty_set(n[1])
    return False


def text_range_ok(b):
    return 48 <= b <= 57 or 65 <= b <= 90 or 97 <= b <= 122
