"""Differential engine: several compilations ("variants") of one case must be observationally equivalent.

Every input is fed one byte per call (so every event is attributed to the byte being processed: 'stamp' = chunk base),
followed by a snapshot; variant 0 is the reference.
"""
from . import cdrv, nm, trace, work


class Case:
    def __init__(self, label, variants, ast=None, seeds=(), meta=None):
        self.label = label
        self.variants = variants      # [(tag, src, args)]
        self.ast = ast
        self.seeds = list(seeds)
        self.meta = meta or {}
        self.inputs = None


def default_script(p, bs):
    lines = ["QUIETOK 1", "START", "FEED1 " + cdrv.hexs(bs), "SNAP"]
    if p.eof:
        lines.append("ENDCOPY")
    lines.append("FREE")
    return lines


def run_cases(ctx, cases, compare, rng, quick, per_batch=28, nwalk=None, enum_budget=None, script=default_script,
              input_cap=None, on_pair=None, precompiled=None):
    """compare(ref_items, items, ref_prog, prog, input) -> None | (key, text).  Returns nothing; reports through ctx."""
    nwalk = nwalk if nwalk is not None else (45 if quick else 80)
    enum_budget = enum_budget if enum_budget is not None else (80 if quick else 400)
    input_cap = input_cap or (110 if quick else 300)
    # pack cases into batches by variant count
    batches = []
    cur, n = [], 0
    for c in cases:
        k = len(c.variants)
        if cur and n + k > per_batch:
            batches.append(cur)
            cur, n = [], 0
        cur.append(c)
        n += k
    if cur:
        batches.append(cur)
    for bcases in batches:
        progs = []
        idx = 0
        for c in bcases:
            c.progs = []
            ok = True
            for vi, var in enumerate(c.variants):
                if isinstance(var, cdrv.Prog):      # compiled elsewhere (C20: other processes / histories)
                    p = var
                    p.meta.setdefault("case", c)
                    if vi == 0:
                        ins, reps, L = work.inputs_for(c.meta["workload_result"], rng, c.ast, nwalk=nwalk, enum_budget=enum_budget, seeds=c.seeds)
                        if len(ins) > input_cap:
                            ins = [x for x in ins if len(x) <= 2][:input_cap // 3] + rng.sample([x for x in ins if len(x) > 2], min(len([x for x in ins if len(x) > 2]), input_cap * 2 // 3))
                        c.inputs = ins
                    c.progs.append(p)
                    continue
                tag, src, args = var
                r = nm.compile_source(src, args, name="p%d" % idx)
                idx += 1
                if not r.ok:
                    ctx.count("variant_rejected")
                    if vi == 0:
                        ok = False
                        break
                    c.progs.append(None)
                    if on_pair:
                        on_pair(c, vi, "rejected", r)
                    continue
                p = cdrv.Prog(r, meta={"src": src, "args": args, "label": c.label, "tag": tag, "case": c})
                if vi == 0:
                    ins, reps, L = work.inputs_for(r, rng, c.ast, nwalk=nwalk, enum_budget=enum_budget, seeds=c.seeds)
                    if len(ins) > input_cap:
                        short = [x for x in ins if len(x) <= 2]
                        rest = [x for x in ins if len(x) > 2]
                        ins = short[:input_cap // 3] + rng.sample(rest, min(len(rest), input_cap - min(len(short), input_cap // 3)))
                    c.inputs = ins
                    c.L = L
                c.progs.append(p)
            if not ok:
                c.progs = []
                continue
            progs += [p for p in c.progs if p is not None]
        if not progs:
            continue
        batch = cdrv.Batch(progs)
        try:
            batch.build()
        except cdrv.BuildError:
            batch.live = []
        for p, err in batch.failed:
            ctx.count("c_compile_failures")
            # emitted C that the sanitizer build rejects: no behaviour to compare, but not something to pass over in silence
            first = next((l for l in (err or "").splitlines() if "error" in l), (err or "?").strip().splitlines()[0] if (err or "").strip() else "?")
            ctx.violation("%s:emitted-c-does-not-compile" % ctx.pid.lower(), "clang rejects the emitted C of a variant: %s" % first[:200],
                          {"nmfu_source": p.meta.get("src"), "nmfu_args": p.meta.get("args"), "stderr": (err or "")[:3000]})
        if not batch.live:
            batch.cleanup()
            continue
        live = {p.name for p in batch.live}
        runs = []
        for c in bcases:
            if not c.progs or c.progs[0] is None or c.progs[0].name not in live:
                continue
            for p in c.progs:
                if p is None or p.name not in live:
                    continue
                for ii, bs in enumerate(c.inputs):
                    runs.append(("%s.%d" % (p.name, ii), p, script(p, bs)))
        res = batch.run(runs, timeout=1200, zero_heap=True)
        ctx.count("binaries")
        if batch.guards:
            ctx.count("cov_edges_hit", batch.guards[0]); ctx.count("cov_edges_total", batch.guards[1])
        for c in bcases:
            if not c.progs or c.progs[0] is None or c.progs[0].name not in live:
                continue
            p0 = c.progs[0]
            ctx.count("cases")
            for ii, bs in enumerate(c.inputs):
                ref = res.get("%s.%d" % (p0.name, ii))
                if ref is None:
                    ctx.count("runs_missing")
                    continue
                ref_items = trace.normal_form(ref, p0)
                ctx.evaluations += 1
                ctx.count("inputs")
                ctx.count("bytes_fed", len(bs))
                ev = [x for x in ref_items if x[0] in ("H", "Y", "T")]
                ctx.count("hook_events", sum(1 for x in ev if x[0] == "H"))
                ctx.count("yield_events", sum(1 for x in ev if x[0] == "Y"))
                ctx.count("terminal_events", sum(1 for x in ev if x[0] == "T"))
                if ev:
                    ctx.nontrivial((p0.meta["src"], tuple(p0.meta["args"]), bs.hex()))
                for p in c.progs[1:]:
                    if p is None or p.name not in live:
                        continue
                    other = res.get("%s.%d" % (p.name, ii))
                    if other is None:
                        ctx.count("runs_missing")
                        continue
                    ctx.count("pairs_compared")
                    if (ref.abort and ref.abort[0] == "watchdog") or (other.abort and other.abort[0] == "watchdog"):
                        ctx.count("watchdog_inconclusive")
                        continue
                    items = trace.normal_form(other, p)
                    d = compare(ref_items, items, p0, p, bs)
                    if d is None:
                        continue
                    key, text = d
                    ctx.violation(key, text, {
                        "nmfu_source": p0.meta["src"], "reference_args": p0.meta["args"], "other_source": p.meta["src"] if p.meta["src"] != p0.meta["src"] else "(same)",
                        "other_args": p.meta["args"], "input_hex": bs.hex(), "input": bs.decode("latin-1"),
                        "reference_trace": trace.describe(ref_items, p0, 30), "other_trace": trace.describe(items, p, 30),
                        "stderr": (other.stderr or ref.stderr or "")[-1200:]})
                if len(ctx.samples) < 5 and len(ev) >= 2 and len(c.progs) > 1:
                    ctx.sample({"label": c.label, "variants": [(v.meta.get("how") if isinstance(v, cdrv.Prog) else v[2]) for v in c.variants][:6], "input": bs.decode("latin-1")[:60],
                                "reference_trace": trace.describe(ref_items, p0, 6)})
        batch.cleanup()


def strip_snap_repr(snap):
    """representation-independent view of a snapshot: scalars, and (length, bytes) for buffers"""
    d = cdrv.parse_snap(snap)
    out = []
    for k, v in d.items():
        if isinstance(v, tuple):
            out.append((k, v[0], v[1]))
        else:
            out.append((k, v))
    return tuple(out)
