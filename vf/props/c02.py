"""C02 - the parsing result is independent of how the input is chunked.

SUT: emitted C (ASan+UBSan) under a driver that gives every chunk its own exact-size heap block and relocates the
state struct between calls. Oracle: the one-byte-per-call schedule of the same binary (self-consistency, strict).
"""
import json

from .. import cdrv, nm, trace, work
from ..common import Ctx

LEVEL = "exploration"

OPTION_ROWS = [
    [], ["-findirect-start-ptr"], ["-O0"], ["-O3", "-findirect-start-ptr"], ["-O2", "-fzero-len-input-support"],
    ["-O3", "-fstrict-done-token-generation", "-findirect-start-ptr"], ["-O2", "-fallocate-str-space-dynamic", "-findirect-start-ptr"],
    ["-O1", "-fhook-per-state", "-fzero-len-input-support", "-findirect-start-ptr"],
]


def schedules_for(rng, n, quick, full_upto):
    if n <= full_upto:
        return trace.compositions(n)[1:] if n > 1 else []   # [0] is... compositions order: mask 0 = whole
    scheds = [[n]]
    for cut in range(1, n):
        scheds.append([cut, n - cut])
    for _ in range(6 if quick else 30):
        parts = []
        left = n
        while left:
            k = min(left, rng.choice([1, 1, 2, 3, 5, 8]))
            parts.append(k)
            left -= k
        scheds.append(parts)
    return scheds


def script_for(prog, chunks, zlen_at=()):
    lines = ["QUIETOK 1", "START"]
    for i, ch in enumerate(chunks):
        if i in zlen_at:
            lines.append("FEEDZ")
        lines.append("FEED " + cdrv.hexs(ch))
    lines.append("SNAP")
    lines.append("FREE")
    return lines


def compare(ref_items, items, prog):
    """None if chunk-invariant normal forms agree, else (key, text)"""
    a = [trace.strip_chunk(x) for x in ref_items if x[0] not in ("I",)]
    b = [trace.strip_chunk(x) for x in items if x[0] not in ("I",)]
    if a != b:
        for i in range(max(len(a), len(b))):
            x = a[i] if i < len(a) else None
            y = b[i] if i < len(b) else None
            if x != y:
                tx = (x or y)[0]
                if x and y and x[0] == y[0]:
                    if tx == "H":
                        what = "hook-args" if x[1] == y[1] else "hook-sequence"
                    elif tx in ("T", "Y"):
                        what = ("%s-code" % tx) if x[1] != y[1] else (("%s-offset" % tx) if x[2] != y[2] else ("%s-store" % tx))
                    elif tx == "F":
                        what = "final-store"
                    else:
                        what = "other-" + tx
                else:
                    what = "sequence-%s-vs-%s" % (x[0] if x else "none", y[0] if y else "none")
                return ("differs:" + what, "item %d: one-byte schedule %s, this schedule %s" % (i, x, y))
    # chunk containment: an event the one-byte schedule saw while processing byte t must occur in the chunk holding byte t
    ra = [x for x in ref_items if x[0] in ("H", "Y", "T")]
    rb = [x for x in items if x[0] in ("H", "Y", "T")]
    for x, y in zip(ra, rb):
        if x[0] == "T" and x[-1] in ("S",):
            continue
        t = x[5] if x[0] == "H" else x[4]
        base, n = (y[5], y[6]) if y[0] == "H" else (y[4], y[5])
        # zero-length and re-invocation calls at a boundary: base <= t <= base+n is the tolerant form for Y re-invocations
        if not (base <= t < base + max(n, 1)):
            return ("differs:event-in-wrong-chunk", "event %s seen with byte %d in the one-byte schedule but in chunk [%d,%d)" % (x[:3], t, base, base + n))
    return None


def run(ctx: Ctx):
    rng = ctx.rng
    quick = ctx.quick
    n_gen = 24 if quick else 160
    n_yield = 12 if quick else 80
    full_upto = 6 if quick else 9
    per_batch = 24
    m = nm.nmfu()

    def args_fn(rng, ast):
        return list(rng.choice(OPTION_ROWS))

    pool, st1 = work.generated_pool(rng, n_gen, profile={"w": {"hook": 16}}, args_fn=args_fn)
    ypool, st2 = work.generated_pool(rng, n_yield, profile={"yields": True, "w": {"yield_": 10}},
                                     args_fn=lambda rng, ast: rng.choice([[], ["-O3"], ["-O0"], ["-O2", "-fzero-len-input-support"]]))
    entries = []   # (label, src, args, Result, seeds, ast)
    for ast, src, args, r in pool + ypool:
        entries.append(("gen", src, args, r, [], ast))
    for fn, src, args, seeds in work.corpus():
        base = fn.rsplit("/", 1)[-1]
        extra = work.CORPUS_SEEDS.get(base, [])
        for row in ([[], ["-findirect-start-ptr", "-O3"]] if quick else [[], ["-findirect-start-ptr", "-O3"], ["-O0"], ["-O2", "-fzero-len-input-support"]]):
            r = nm.compile_source(src, args + row, name="p0")
            if r.ok:
                entries.append((base, src, args + row, r, seeds + extra, None))
    ctx.cov.update({"programs_generated": st1["generated"] + st2["generated"], "programs_accepted_generated": len(pool) + len(ypool),
                    "programs_rejected": st1["rejected"] + st2["rejected"], "corpus_builds": len(entries) - len(pool) - len(ypool)})
    kinds = {}
    for ast, *_ in pool + ypool:
        for k, v in work.gen.kinds_of(ast).items():
            kinds[k] = kinds.get(k, 0) + 1
    ctx.extra["node_kinds_in_accepted"] = kinds

    for bi, chunk in enumerate(work.chunked(entries, per_batch)):
        progs = []
        for i, (label, src, args, r, seeds, ast) in enumerate(chunk):
            r.name = "p%d" % i
            # re-compile under the batch-unique name (program name is part of the emitted identifiers)
            r2 = nm.compile_source(src, args, name="p%d" % i)
            if not r2.ok:
                continue
            p = cdrv.Prog(r2, meta={"label": label, "src": src, "args": args})
            ins, reps, L = work.inputs_for(r2, rng, ast, nwalk=30 if quick else 60, enum_budget=60 if quick else 400, seeds=seeds)
            p.meta["inputs"] = ins
            p.meta["L"] = L
            progs.append(p)
        batch = cdrv.Batch(progs).build()
        for p, err in batch.failed:
            ctx.count("c_compile_failures")     # C11's business; dropped here
        runs = []
        plan = {}
        for p in batch.live:
            zl = p.zero_len
            ins = p.meta["inputs"]
            if quick and len(ins) > 110:
                short = [x for x in ins if len(x) <= 3]
                rest = [x for x in ins if len(x) > 3]
                ins = short[:35] + rng.sample(rest, min(len(rest), 75))
            for ii, bs in enumerate(ins):
                n = len(bs)
                rid0 = "%s.%d.r" % (p.name, ii)
                runs.append((rid0, p, ["QUIETOK 1", "START", "FEED1 " + cdrv.hexs(bs), "SNAP", "FREE"]))
                scheds = schedules_for(rng, n, quick, full_upto)
                ids = []
                for si, parts in enumerate(scheds):
                    chunks = trace.split(bs, parts)
                    z = ()
                    if zl and rng.random() < 0.3:
                        z = set(rng.sample(range(len(chunks)), rng.randrange(1, min(3, len(chunks)) + 1)))
                    rid = "%s.%d.%d" % (p.name, ii, si)
                    runs.append((rid, p, script_for(p, chunks, z)))
                    ids.append((rid, parts, sorted(z)))
                plan[rid0] = (p, bs, ids)
        res = batch.run(runs, timeout=900)
        ctx.count("binaries")
        if batch.guards:
            ctx.count("cov_edges_hit", batch.guards[0]); ctx.count("cov_edges_total", batch.guards[1])
        for rid0, (p, bs, ids) in plan.items():
            ref = res.get(rid0)
            if ref is None:
                ctx.count("runs_missing")
                continue
            ref_items = trace.normal_form(ref, p)
            ctx.evaluations += 1
            ctx.count("inputs")
            ctx.count("bytes_fed", len(bs))
            events = [x for x in ref_items if x[0] in ("H", "Y", "T")]
            ctx.count("hook_events", sum(1 for x in events if x[0] == "H"))
            ctx.count("yield_events", sum(1 for x in events if x[0] == "Y"))
            ctx.count("terminal_events", sum(1 for x in events if x[0] == "T"))
            if events:
                ctx.nontrivial((p.meta["src"], tuple(p.meta["args"]), bs.hex()))
            for rid, parts, z in ids:
                other = res.get(rid)
                if other is None:
                    ctx.count("runs_missing")
                    continue
                ctx.count("schedules_compared")
                items = trace.normal_form(other, p)
                if other.abort and other.abort[0] == "watchdog" or ref.abort and ref.abort[0] == "watchdog":
                    ctx.count("watchdog_inconclusive")
                    continue
                d = compare(ref_items, items, p)
                if d is None:
                    if ref.abort:
                        ctx.count("aborts_schedule_independent")
                        ab = ctx.extra.setdefault("abort_kinds", {})
                        k2 = ref.abort[0] + " | " + p.meta["label"]
                        if k2 not in ab:
                            ab[k2] = {"n": 0, "args": p.meta["args"], "input": bs.hex(), "src": p.meta["src"][:1500], "report": ref.abort[1]}
                        ab[k2]["n"] += 1
                    continue
                key, text = d
                if (ref.abort or other.abort) and not (ref.abort and other.abort):
                    ab = (other.abort or ref.abort)[0]
                    key = "schedule-dependent-report:" + ab
                    text = "sanitizer report only under one schedule: " + str(other.abort or ref.abort) + "; " + text
                ctx.violation("c02:" + key, text, {
                    "nmfu_source": p.meta["src"], "nmfu_args": p.meta["args"], "input_hex": bs.hex(), "chunks": parts, "zero_len_before": z,
                    "one_byte_schedule": trace.describe(ref_items, p), "this_schedule": trace.describe(items, p),
                    "stderr": (other.stderr or ref.stderr or "")[-1500:], "c_source": p.source, "c_header": p.header})
            if len(ctx.samples) < 4 and events:
                ctx.sample({"program": p.meta["label"], "args": p.meta["args"], "input": bs.decode("latin-1"), "schedules": len(ids),
                            "normal_form": trace.describe(ref_items, p, 6)})
        batch.cleanup()

    ctx.floor("schedules_compared", 2000 if quick else 20000)
    ctx.floor("hook_events", 50)
    ctx.floor("terminal_events", 200)
    ctx.floor("yield_events", 20)
    ctx.rule = ("case = (program build, input); every case is run one byte per call and under all 2^(n-1) compositions (n <= %d) or "
                "every single cut + random compositions (longer); zero-length calls interleaved where supported; non-trivial = the "
                "normal form has at least one hook, yield or terminal event; distinct by (source, options, input)" % full_upto)
    ctx.assumptions += ["the one-byte schedule of the same binary is the reference (no model)",
                        "offsets are observable only in indirect-pointer builds; direct builds are checked by chunk containment"]


def replay(path):
    d = json.load(open(path))
    r = nm.compile_source(d["nmfu_source"], d["nmfu_args"], name="p0")
    print("compile:", r.status, r.exc_type)
    if not r.ok:
        return 1
    p = cdrv.Prog(r)
    b = cdrv.Batch([p]).build()
    bs = bytes.fromhex(d["input_hex"])
    runs = [("ref", p, ["QUIETOK 1", "START", "FEED1 " + cdrv.hexs(bs), "SNAP", "FREE"]),
            ("oth", p, script_for(p, trace.split(bs, d["chunks"]), set(d.get("zero_len_before", []))))]
    res = b.run(runs)
    for k in ("ref", "oth"):
        print(k, trace.describe(trace.normal_form(res[k], p), p, 40), res[k].abort)
    v = compare(trace.normal_form(res["ref"], p), trace.normal_form(res["oth"], p), p)
    print("verdict:", v)
    b.cleanup()
    return 1 if v else 0
