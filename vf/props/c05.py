"""C05 - optimisation levels and flags never change parser behaviour.

SUT: the same program built at -O0..-O3 and with individual optimisation flags / thresholds flipped, all in one sanitized
binary, fed one byte per call. Oracle: the -O0 build; event sequences must agree, stamps (byte being processed) may
differ by at most one position (the slack the language reference leaves open). Plus a contract on the real range-check
generator: the byte set an emitted condition accepts equals the transition's label.
"""
import json

from .. import contracts, diff, gen, nm, trace, work
from ..common import Ctx

LEVEL = "exploration"

OPT_FLAGS = ["simplify-else-conditions", "remove-inaccesible-states", "use-delete-for-empty-string", "shortcircuit-fallthroughs", "collapse-transition-ranges"]
PROFILE = {"w": {"hook": 14, "appendc": 4, "assignstr": 5, "finish": 4, "try_": 9, "loop": 8, "case": 10}, "str_defaults": 0.2}


def all_variants():
    v = [["-O1"], ["-O2"], ["-O3"]]
    for lvl in ("-O1", "-O3"):
        for f in OPT_FLAGS:
            v.append([lvl, "-fno-" + f])
            v.append([lvl, "-f" + f])
    for k in ("0", "1", "20"):
        v.append(["-O3", "--max-shortcircuit-fallthrough", k])
    for k in ("0", "3"):
        v.append(["-O3", "--max-shortcircuit-action-penalty", k])
    for k in ("1", "2", "4", "300"):
        v.append(["-O2", "--collapsed-range-length", k])
    v.append(["-O0", "-fshortcircuit-fallthroughs"])
    v.append(["-O0", "-fcollapse-transition-ranges", "--collapsed-range-length", "1"])
    return v


def has_inbetween_append(src):
    return "+= [" in src


def make_compare():
    def compare(ref_items, items, p0, p, bs):
        n = len(bs)
        a = [x for x in ref_items if x[0] in ("H", "Y", "T")]
        b = [x for x in items if x[0] in ("H", "Y", "T")]
        ab = [x for x in ref_items + items if x[0] in ("A", "P")]
        optkey = "+".join(o.lstrip("-") for o in p.meta["args"])[:60]
        if ab:
            ra = [x for x in ref_items if x[0] in ("A", "P")]
            rb = [x for x in items if x[0] in ("A", "P")]
            if [x[:2] for x in ra] != [x[:2] for x in rb]:
                return ("c05:differs:abort-or-spin-only-in-one-build", "reference %s vs %s" % (ra, rb))
            return None
        slack_fail = has_inbetween_append(p0.meta["src"])
        k = min(len(a), len(b))
        for i in range(k):
            x, y = a[i], b[i]
            if x[0] != y[0] or x[1] != y[1]:
                return ("c05:differs:event-sequence", "event %d: -O0 %s, this build %s" % (i, x[:3], y[:3]))
            sx, sy = (x[4], y[4]) if x[0] == "H" else (x[3], y[3])
            if sx != sy and diff.strip_snap_repr(sx) != diff.strip_snap_repr(sy):
                return ("c05:differs:%s-store" % {"H": "hook", "Y": "yield", "T": "terminal"}[x[0]],
                        "event %d %s: outputs visible differ: -O0 {%s} vs {%s}" % (i, x[:2], sx, sy))
            bx, by = (x[5], y[5]) if x[0] == "H" else (x[4], y[4])
            lim = 1
            if x[0] == "T" and x[1] == 1 and not slack_fail:
                lim = 0
            if abs(bx - by) > lim:
                return ("c05:differs:%s-offset" % {"H": "hook", "Y": "yield", "T": "terminal"}[x[0]],
                        "event %d %s fires while processing byte %d at -O0 but byte %d in this build (allowed shift %d)" % (i, x[:2], bx, by, lim))
            if x[0] == "Y" and x[2] >= 0 and y[2] >= 0 and x[2] != y[2]:
                # the position a yield reports is what a lexer cuts its tokens with: it may not move with the optimisation level
                nx, ny = (a[i + 1] if i + 1 < len(a) else None), (b[i + 1] if i + 1 < len(b) else None)
                done = p0.codes.index("DONE")
                final = lambda e, z: z is not None and z[0] == "T" and z[1] == done and z[2] == e[2]
                tag = "[yield-on-final-transition]" if abs(x[2] - y[2]) == 1 and (final(x, nx) or nx is None) and (final(y, ny) or ny is None) else ""
                return ("c05:differs:yield-pointer" + tag, "yield %s reports position %d at -O0 but %d in this build" % (p0.code_name(x[1]), x[2], y[2]))
            if x[0] in ("Y", "T") and x[2] >= 0 and y[2] >= 0 and abs(x[2] - y[2]) > lim:
                return ("c05:differs:pointer-offset", "pointer offset %d vs %d at event %d %s" % (x[2], y[2], i, x[:2]))
        longer = a if len(a) > len(b) else b
        for x in longer[k:]:
            bx = x[5] if x[0] == "H" else x[4]
            if bx < n - 1:
                return ("c05:differs:missing-event", "event %s (while processing byte %d of %d) has no counterpart in the %s build" %
                        (x[:3], bx, n, "optimised" if longer is a else "-O0"))
        return None
    return compare


def tail_shapes(rng, n):
    """what a block ends with x what its handler holds x what follows the block: the final states of a body that keep only error
    transitions, handlers that are plain actions (dummy fall-through states), blocks that end the program. These are the states the
    shortcircuit / dummy-state passes fold together."""
    ends = ['";";', '/;/;', '/;+/;', 's += /[a-z]+/;\n   /;/;', '/ab|c;/;', '/[a-z]+/;\n   ";";', '/[^;]*/;\n   /;/;', 's += /[a-z]*/;\n   /[;,]/;']
    handlers = ['h1();', 'h1();\n   n = 1;', '', '"!";', 'n = [n + 1];\n   "!";', 'h1();\n   finish;']
    afters = ['', 'h2();', '"z";', 'h2();\n "z";', 'n = 7;']
    pres = ['"<";', '', '"<";\n h2();']
    out = []
    for _ in range(n):
        e, h, a, pre = rng.choice(ends), rng.choice(handlers), rng.choice(afters), rng.choice(pres)
        k = rng.random()
        if k < 0.55:
            blk = " try {\n   %s\n }\n catch%s {\n   %s\n }" % (e, rng.choice([" (nomatch)", "", " (outofspace)"]) if "+=" in e else rng.choice([" (nomatch)", ""]), h)
        elif k < 0.8:
            if not h:
                h = "n = 2;"
            blk = " case {\n  %s -> {\n   h1();\n  }\n  else -> {\n   %s\n  }\n }" % (e.split(";\n")[-1].rstrip(";") if "+=" not in e.split(";\n")[-1] else '"q"', h)
        else:
            blk = " try {\n  optional {\n   %s\n  }\n }\n catch {\n   %s\n }" % (e, h)
        src = "out str[4] s;\nout int n = 0;\nhook h1;\nhook h2;\nparser {\n %s\n%s\n %s\n}\n" % (pre, blk, a)
        out.append(src)
    return out


def run(ctx: Ctx):
    rng = ctx.rng
    quick = ctx.quick
    sink = contracts.Sink()
    contracts.install_condition(sink)
    n_gen = 22 if quick else 150
    pool, st = work.generated_pool(rng, n_gen, profile=PROFILE)
    ypool, st2 = work.generated_pool(rng, 6 if quick else 50, profile=dict(PROFILE, yields=True, w=dict(PROFILE["w"], yield_=8)))
    allv = all_variants()
    cases = []
    for ast, src, args, r in pool + ypool:
        vs = [["-O1"], ["-O2"], ["-O3"]] + (rng.sample(allv[3:], 3) if quick else allv[3:])
        variants = [("O0", src, args + ["-O0", "-findirect-start-ptr"])] + [("v", src, args + v + ["-findirect-start-ptr"]) for v in vs]
        cases.append(diff.Case("gen", variants, ast=ast))
    # lexers with adjacent open-ended tokens: the positions reported by yields are what the optimiser must not move
    from . import c08
    from . import c01
    for ast in c08.open_token_shapes(rng, 8 if quick else 80) + c08.prefix_loop_shapes(rng, 4 if quick else 40) + c01.loop_tail_shapes(rng, 8 if quick else 80, yields=True, family="yield-chain"):
        src = gen.prog_src(ast)
        variants = [("O0", src, list(ast.args) + ["-O0", "-findirect-start-ptr"])] + [("v", src, list(ast.args) + v + ["-findirect-start-ptr"]) for v in (["-O2"], ["-O3"], ["-O1", "-fshortcircuit-fallthroughs"])]
        cases.append(diff.Case("lexer", variants, ast=ast))
    for src in tail_shapes(rng, 30 if quick else 300):
        vs = [["-O1"], ["-O3"], ["-O0", "-fshortcircuit-fallthroughs"]]
        cases.append(diff.Case("tails", [("O0", src, ["-O0", "-findirect-start-ptr"])] + [("v", src, v + ["-findirect-start-ptr"]) for v in vs],
                               seeds=[b"<ab;zz", b"ab;zz", b"<c;!z", b"<ab,!z", b"<;;!", b"<abcdef;z"]))
    for fn, src, args, seeds in work.corpus():
        b = fn.rsplit("/", 1)[-1]
        if quick and b in ("gtfs-realtime.nmfu", "ttc_rdf.nmfu"):
            continue
        args = [a for a in args if not a.startswith("-O")]
        vs = [["-O1"], ["-O3"]] + (rng.sample(allv[3:], 1) if quick else rng.sample(allv[3:], 8))
        variants = [("O0", src, args + ["-O0", "-findirect-start-ptr"])] + [("v", src, args + v + ["-findirect-start-ptr"]) for v in vs]
        cases.append(diff.Case(b, variants, seeds=seeds + work.CORPUS_SEEDS.get(b, [])))
    # byte ranges touching 0x00 / 0xff and of lengths around the collapse threshold (range collapsing is where the byte tests change shape)
    for i in range(6 if quick else 40):
        lo = rng.choice([0x00, 0x20, 0x41, 0x7f, 0x80, 0xc0, 0xf0, 0xfa])
        hi = min(255, lo + rng.choice([2, 3, 4, 5, 6, 40, 255]))
        if rng.random() < 0.5:
            hi = 255
        src = "hook h0;\nhook h1;\nparser {\n loop {\n  case {\n   b/[%02x-%02x]/ -> {\n    h0();\n   }\n   else -> {\n    h1();\n    /./;\n   }\n  }\n }\n}\n" % (lo, hi)
        vs = [["-O2"], ["-O3"], ["-O2", "--collapsed-range-length", str(rng.choice([1, 2, 3, 5]))]]
        cases.append(diff.Case("ranges", [("O0", src, ["-O0", "-findirect-start-ptr"])] + [("v", src, v + ["-findirect-start-ptr"]) for v in vs],
                               seeds=[bytes([lo, hi, max(0, lo - 1), min(255, hi + 1), (lo + hi) // 2]), bytes(range(max(0, lo - 2), min(256, lo + 3))), bytes(range(max(0, hi - 2), min(256, hi + 3)))]))
    ctx.cov.update({"programs_generated": st["generated"] + st2["generated"], "programs_accepted": len(pool) + len(ypool)})
    used = {}
    for c in cases:
        for _, _, a in c.variants[1:]:
            k = " ".join(x for x in a if x != "-findirect-start-ptr" and x not in ("-fyield-support", "-feof-support"))
            used[k] = used.get(k, 0) + 1
    ctx.extra["build_rows"] = used
    diff.run_cases(ctx, cases, make_compare(), rng, quick)
    ctx.cov["condition_contract_evaluations"] = sink.evals
    ctx.cov["range_collapsed_conditions_checked"] = getattr(sink, "ranges", 0)
    for rec in sink.failures:
        ctx.violation("c05:condition:" + rec["why"], "emitted byte test does not accept exactly the transition's label", rec)
    ctx.floor("pairs_compared", 3000 if quick else 40000)
    ctx.floor("hook_events", 60)
    ctx.floor("condition_contract_evaluations", 500)
    ctx.floor("range_collapsed_conditions_checked", 5)
    ctx.rule = ("case = (program, input) run on the -O0 build and on builds at -O1..-O3 and with each optimisation flag / threshold "
                "flipped; events (hooks, yields, terminal) must agree in order, code and visible outputs; the byte being processed when an "
                "event fires may differ by one position; trailing events may be pending only for the last byte; non-trivial = at least one "
                "event; distinct by (source, input). The final store of a run that ends without a terminal result is not compared "
                "(pending lazy assignments are indistinguishable from lost ones there); it is observed at the next event of a longer input.")
    ctx.assumptions += ["the -O0 build of the same source is the reference (no model)",
                        "FAIL may shift by one byte only in programs that contain an in-between append (s += [expr])"]


def replay(path):
    d = json.load(open(path))
    if "nmfu_source" not in d:
        print(json.dumps(d, indent=1)[:3000])
        return 0
    from .. import cdrv
    bs = bytes.fromhex(d["input_hex"])
    out = []
    for args in (d["reference_args"], d["other_args"]):
        r = nm.compile_source(d["nmfu_source"], args, name="p0")
        if not r.ok:
            print("compile", r.status, r.exc_type)
            return 1
        p = cdrv.Prog(r, meta={"src": d["nmfu_source"], "args": args})
        b = cdrv.Batch([p]).build()
        res = b.run([("x", p, diff.default_script(p, bs))], zero_heap=True)
        items = trace.normal_form(res["x"], p)
        print(args, trace.describe(items, p, 40))
        out.append((items, p))
        b.cleanup()
    v = make_compare()(out[0][0], out[1][0], out[0][1], out[1][1], bs)
    print("verdict:", v)
    return 1 if v else 0
