"""C16 - wait never fails and stops at the first restart-semantics match.

SUT: emitted C for `[try {]* wait P; "#"; [} catch { "!"; }]* end;`. Oracle: a restart automaton built from the derivative
engine and the documented restart rule; compared as languages at every prefix (feed code, FAIL pointer, end() on a copy)
and by 256-byte sweeps, which decides: no byte fails or leaves the wait, END during a wait reports FAIL (incomplete) and
never enters a handler, the statement after the wait starts right after the first restart-semantics match.
"""
import json

from .. import gen, lang, nm, rx
from ..common import Ctx

LEVEL = "exploration"
HASH, BANG = ord("#"), ord("!")


class WaitAuto:
    """state: ('w', q) waiting, q = derivative state of P | ('m', r) after the wait, r = rest of "#" | ('h', r) in a handler ("!")"""

    def __init__(self, psem, ntry, after=HASH, handler=BANG):
        self.p = psem
        self.ntry = ntry
        self.a, self.h = after, handler
        self.after = rx.lit(bytes([after]))
        self.handler = rx.lit(bytes([handler]))

    def start(self):
        return ("w", self.p)

    def _fail_from_body(self, b):
        # a mismatch in the try body goes to the innermost handler, which expects "!" at the offending byte;
        # a mismatch inside a handler goes to the next enclosing handler (handlers are outside their own try)
        return self._handler(self.ntry, b)

    def _handler(self, level, b):
        while level > 0:
            d = rx.deriv(self.handler, b)
            if d != rx.EMPTY:
                return ("h", d, level)
            level -= 1
        return None

    def step(self, st, b):
        k = st[0]
        if k == "w":
            q = st[1]
            d = rx.deriv(q, b)
            if d != rx.EMPTY:
                return ("w", d)
            if rx.nullable(q):
                d2 = rx.deriv(self.after, b)
                if d2 != rx.EMPTY:
                    return ("m", d2)
                return self._fail_from_body(b)
            d = rx.deriv(self.p, b)
            return ("w", d) if d != rx.EMPTY else ("w", self.p)
        if k == "m":
            d = rx.deriv(st[1], b)
            if d != rx.EMPTY:
                return ("m", d)
            if rx.nullable(st[1]):
                return None                     # program complete except for `end`: a data byte mismatches end -> no handler (outside the trys)
            return self._fail_from_body(b)
        d = rx.deriv(st[1], b)
        if d != rx.EMPTY:
            return ("h", d, st[2])
        if rx.nullable(st[1]):
            return None
        return self._handler(st[2] - 1, b)

    def accepting(self, st):
        if st[0] == "w":
            return False                        # end during a wait: incomplete
        return rx.nullable(st[1])

    def sets(self):
        return rx.sets_in(self.p) | {frozenset([self.a]), frozenset([self.h])}


def run(ctx: Ctx):
    rng = ctx.rng
    quick = ctx.quick
    n = 260 if quick else 3000
    g = gen.Gen(rng, {"high_bytes": 0.1, "casei_prob": 0.2, "binary_prob": 0.1})
    todo = []
    fixed = [gen.N("lit", bs=b"abcdabce", form="s"), gen.N("lit", bs=b"aab", form="s"), gen.N("lit", bs=b"\r\n", form="s"),
             gen.N("lit", bs=b"aXa", form="i"), gen.N("lit", bs=b"a", form="s"), gen.N("lit", bs=b"abab", form="s")]
    for i in range(n):
        if i < len(fixed):
            p = fixed[i]
        else:
            r = rng.random()
            if r < 0.4:
                p = g.literal(set(), maxlen=3)
                if rng.random() < 0.5:
                    # self-overlapping literals exercise the restart rule
                    a = bytes(rng.choice(b"ab") for _ in range(rng.randrange(2, 6)))
                    p = gen.N("lit", bs=a, form=rng.choice("ssi"))
            elif r < 0.7:
                p = g.regex(set())
            elif r < 0.85:
                # a sequence of separate patterns, each with its own alphabet: inverted sets, wildcards and classes next to literals
                # (the restart transitions of a later part must still see what the first part can begin with)
                parts = []
                for _ in range(rng.choice([2, 2, 3])):
                    q = rng.random()
                    if q < 0.45:
                        items = [("ch", rng.choice(b"abxy01")) for _ in range(rng.choice([1, 1, 2]))]
                        tree = ("set", items, True)
                    elif q < 0.55:
                        tree = ("any",)
                    elif q < 0.7:
                        tree = ("cls", rng.choice("wWdDsS"))
                    elif q < 0.85:
                        tree = ("set", [("ch", rng.choice(b"abxy01")) for _ in range(rng.choice([1, 2, 3]))], False)
                    else:
                        tree = None
                    if tree is not None and rng.random() < 0.25:
                        tree = ("seq", [tree, ("op", ("ch", rng.choice(b"abxy")), rng.choice("?*"))]) if rng.random() < 0.5 else ("op", tree, "+")
                    parts.append(gen.N("rx", tree=tree, binary=False) if tree is not None else gen.N("lit", bs=bytes([rng.choice(b"abxy01")]), form="s"))
                p = gen.N("concat", parts=parts)
            else:
                p = gen.N("concat", parts=[g.literal(set()), g.regex(set()) if rng.random() < 0.5 else g.literal(set())])
        sem = gen.pat_sem(p)
        if sem in (rx.EMPTY, rx.EPS) or rx.nullable(sem):
            continue
        fs = rx.first(sem) | gen.tail_open(sem)
        alls = set().union(*rx.sets_in(sem)) if rx.sets_in(sem) else set()
        after, handler = HASH, BANG
        if HASH in fs or BANG in fs or HASH in alls or BANG in alls:
            # patterns with inverted sets / wildcards contain every byte: the statement after the wait and the handler get bytes
            # the pattern cannot continue with (when there are any), and may well be bytes the pattern can start with
            free = [b for b in b"#!xyq~01" if b not in gen.tail_open(sem)]
            if len(free) < 2:
                continue
            after, handler = free[0], free[1]
            ctx.count("wait_programs_sharing_bytes_with_follow")
        ntry = rng.choice([0, 0, 1, 2])
        body = " wait %s;\n %s;\n" % (gen.pat_src(p), gen.spell_string(bytes([after])))
        for _ in range(ntry):
            body = " try {\n" + body + " }\n catch {\n  %s;\n }\n" % gen.spell_string(bytes([handler]))
        src = "parser {\n" + body + " end;\n}\n"
        extra = []
        # guided: the pattern's own bytes with restarts
        # bytes the pattern names: members of its small sets, and what its inverted sets exclude
        named = sorted(set().union(*[(x if len(x) <= 128 else (set(range(256)) - set(x))) for x in rx.sets_in(sem)]) - {rx.END}) or [97]
        for wi in range(10):
            w = bytearray()
            q = sem
            for _ in range(rng.randrange(2, 14)):
                f = sorted(rx.first(q) - {rx.END})
                r = rng.random()
                if wi >= 6 and r < 0.8:
                    b = rng.choice(named)       # mismatches on named bytes in the middle of a partial match: the restart rule at work
                elif f and r < 0.75:
                    b = rng.choice(f)
                else:
                    b = rng.choice(sorted(rx.first(sem) - {rx.END}) or [97])
                w.append(b)
                d = rx.deriv(q, b)
                q = d if d != rx.EMPTY else sem
            A, H = bytes([after]), bytes([handler])
            w += rng.choice([A, A + H, H, A + A, b""])
            extra.append(bytes(w))
        todo.append((src, WaitAuto(sem, ntry, after, handler), extra))
    ctx.count("wait_programs", len(todo))
    ctx.sample({"program": todo[0][0], "strings": [x.decode("latin-1") for x in todo[0][2][:3]]})
    lang.check_languages(ctx, todo, rng, "c16", strings_budget=130 if quick else 500, sweep_states=5 if quick else 10, per_batch=30, max_reps=5)
    ctx.floor("prefix_observations", 20000)
    ctx.floor("sweeps", 300)
    ctx.rule = ("case = (wait program with 0-2 enclosing try blocks, string) observed at every prefix (feed code, FAIL pointer, end() on a "
                "copy) or (program, automaton state, all 256 next bytes); patterns: literals incl. self-overlapping ones, case-insensitive, "
                "regexes, concatenations; non-trivial = some prefix completes the program, or a sweep")
    ctx.assumptions += ["restart rule as documented: on mismatch the partial match is abandoned and the offending byte retried from the pattern start, dropped if it cannot start it"]


def replay(path):
    d = json.load(open(path))
    print(json.dumps({k: v for k, v in d.items() if k != "c_source"}, indent=1)[:3000])
    return 0
