"""C17 - end-of-input handling follows the EOF contract.

SUT: emitted C built with -feof-support; after every explored input (and every prefix of the guided ones) end() is called.
Oracle: the reference interpreter fed the input followed by the END symbol: `end` patterns consume only END, data patterns
(wildcards and inverted sets included) never do, a wait ignores it (incomplete -> FAIL), END mismatching a data pattern
raises nomatch into the handlers; DONE / finish code / FAIL and the actions after a completing `end` follow from that.
"""
import json

from .. import gen, nm, work
from ..common import Ctx
from . import c01

LEVEL = "exploration"
N = gen.N

PROFILES = [
    {"eof": True, "end_prob": 0.3, "w": {"hook": 12, "try_": 12, "case": 9, "wait": 6, "finish": 5, "optional": 7}},
    {"eof": True, "end_prob": 0.3, "w": {"hook": 10, "loop": 9, "case": 10, "appendm": 8, "foreach": 4}, "regex_prob": 0.5},
]

HAND = [
    'hook h0;\nfinishcode F0;\nparser {\n "ab";\n end;\n h0();\n finish F0;\n}\n',
    'hook h0;\nparser {\n /[^x]+/;\n end;\n h0();\n}\n',
    'hook h0;\nparser {\n /.*/;\n end;\n}\n',
    'out int i0 = 0;\nhook h0;\nparser {\n try {\n  "content";\n  i0 = 1;\n }\n catch (nomatch) {\n  case {\n   else -> {\n    wait end;\n    i0 = 2;\n   }\n   end -> {\n    i0 = 3;\n   }\n  }\n }\n}\n',
    'hook h0;\nparser {\n wait "ab";\n h0();\n end;\n}\n',
    'hook h0;\nhook h1;\nparser {\n case {\n  ("a" end) -> {\n   h0();\n  }\n  "ab" -> {\n   h1();\n   end;\n  }\n }\n}\n',
]


def run(ctx: Ctx):
    rng = ctx.rng
    quick = ctx.quick
    n_per = 22 if quick else 300
    pool = []
    kinds = {}
    ends = 0
    for prof in PROFILES:
        pl, st = work.generated_pool(rng, n_per, profile=dict(prof, **c01.RI_PROFILE),
                                     args_fn=lambda rng, ast: [rng.choice(["-O0", "-O1", "-O2", "-O3"]), "-findirect-start-ptr"] + rng.choice([[], [], ["-fstrict-done-token-generation"]]))
        ctx.count("programs_generated", st["generated"])
        for ast, src, args, r in pl:
            pats = gen.patterns_of(ast.body)
            has_end = any(p.kind == "end" or (p.kind == "concat" and any(x.kind == "end" for x in p.parts)) for p in pats)
            ends += has_end
            pool.append((ast, src, args, r))
            for k, v in gen.kinds_of(ast).items():
                kinds[k] = kinds.get(k, 0) + 1
    ctx.count("programs_with_end_pattern", ends)
    # hand-written shapes go through the same path: they are parsed back into the harness AST by a tiny reader? no - the RI needs an
    # AST, so the hand shapes are built as ASTs here
    hand_asts = hand_programs() + inverted_tail_shapes(rng, 24 if quick else 300)
    for ast in hand_asts:
        src = gen.prog_src(ast)
        r = nm.compile_source(src, ["-feof-support", "-findirect-start-ptr"], name="p0", keep=False)
        if r.ok:
            pool.append((ast, src, ["-feof-support", "-findirect-start-ptr", rng.choice(["-O0", "-O3"])], None))
            ctx.count("programs_with_end_pattern")
        else:
            ctx.count("hand_programs_rejected")
    ctx.cov["programs_accepted"] = len(pool)

    def prefixes(rng, ast, ins):
        out = set()
        for w in ins:
            if 2 <= len(w) <= 24:
                for j in range(1, len(w)):
                    out.add(w[:j])
        out = sorted(out)
        if len(out) > (120 if quick else 500):
            out = rng.sample(out, 120 if quick else 500)
        return out
    c01.run_pool(ctx, rng, quick, pool, "c17", with_end=True, nwalk=25 if quick else 60, enum_budget=120 if quick else 600, cap=120 if quick else 400, extra_inputs=prefixes)
    ctx.floor("runs_checked", 2500 if quick else 60000)
    ctx.floor("programs_with_end_pattern", 8)
    ctx.floor("terminal_DONE", 300)
    ctx.rule = ("case = (EOF-enabled program with `end` in match / concatenation / case / wait positions and inside try blocks, input): the input "
                "is fed byte-wise and end() is called after it (every prefix of the guided inputs is an input of its own); the events and the result "
                "of end() must be what the reference interpreter prescribes for input + END; non-trivial = an event was observed; distinct by (source, input)")
    ctx.assumptions += ["END is a symbol no data pattern matches; only `end` consumes it; a wait ignores it (vf/ri.py)"]


def inverted_tail_shapes(rng, n):
    """a region with its own no-match handler (try body, case arm next to an else arm, optional, foreach) that ends in an open-ended
    inverted-set / class regex, followed by a statement that starts with one of the excluded bytes: END arriving in the regex's
    accept state belongs to the following statement's handler (none: FAIL), not to the region's"""
    L = lambda s: N("match", p=N("lit", bs=s, form="s"))
    out = []
    for _ in range(n):
        exc = rng.sample(list(b"=;,x"), rng.choice([1, 1, 2]))
        inv = rng.random() < 0.75
        atom = ("set", [("ch", c) for c in exc], True) if inv else ("set", [("range", 97, 122)], False)
        tree = ("op", atom, rng.choice("*+"))
        if rng.random() < 0.4:
            tree = ("seq", [("ch", 107), tree])
        pat = N("rx", tree=tree, binary=False)
        nullable = tree[0] == "op" and tree[2] == "*"
        s0 = N("out", name="s0", typ="str", size=rng.choice([3, 8]), default=None)
        i0 = N("out", name="i0", typ="int", signed=None, width=None, default=0)
        m = N("appendm", var="s0", p=pat) if rng.random() < 0.5 else N("match", p=pat)
        handler = rng.choice([[N("hook", name="h1")], [], [N("hook", name="h1"), L(b"!")], [N("assign", var="i0", e=N("num", v=2, text="2"))]])
        k = rng.random()
        if k < 0.45:
            blk = N("try", body=rng.choice([[m], [L(b"k"), m]]), reasons=rng.choice([None, ["nomatch"]]), handler=handler)
        elif k < 0.75:
            if nullable:
                continue
            blk = N("case", greedy=False, clauses=[N("clause", preds=[pat], body=[N("hook", name="h0")], prio=None),
                                                   N("clause", preds=["else"], body=handler or [N("hook", name="h1")], prio=None)])
        elif k < 0.9:
            if nullable:
                continue
            blk = N("optional", body=[m])
        else:
            if nullable:
                continue
            blk = N("foreach", body=[N("match", p=pat)], do=[N("assign", var="i0", e=N("bin", op="+", a=N("var", name="i0"), b=N("num", v=1, text="1")))])
        after = [L(bytes([exc[0]]) + b"v")] + rng.choice([[], [N("hook", name="h0")], [N("match", p=N("end"))]])
        pre = rng.choice([[], [L(b"<")]])
        out.append(N("prog", outs=[s0, i0], hooks=["h0", "h1"], fcodes=[], ycodes=[], macros=[], args=[], body=pre + [blk] + after))
    return out


def hand_programs():
    L = lambda s: N("match", p=N("lit", bs=s, form="s"))
    E = N("match", p=N("end"))
    out = []
    out.append(N("prog", outs=[], hooks=["h0"], fcodes=["F0"], ycodes=[], macros=[], args=[], body=[L(b"ab"), E, N("hook", name="h0"), N("finish", code="F0")]))
    out.append(N("prog", outs=[], hooks=["h0"], fcodes=[], ycodes=[], macros=[], args=[],
                 body=[N("match", p=N("rx", tree=("op", ("set", [("ch", 120)], True), "+"), binary=False)), E, N("hook", name="h0")]))
    out.append(N("prog", outs=[], hooks=[], fcodes=[], ycodes=[], macros=[], args=[], body=[N("match", p=N("rx", tree=("op", ("any",), "*"), binary=False)), E]))
    i0 = N("out", name="i0", typ="int", signed=None, width=None, default=0)
    out.append(N("prog", outs=[i0], hooks=[], fcodes=[], ycodes=[], macros=[], args=[], body=[
        N("try", body=[L(b"content"), N("assign", var="i0", e=N("num", v=1, text="1"))], reasons=["nomatch"], handler=[
            N("case", greedy=False, clauses=[
                N("clause", preds=["else"], body=[N("wait", p=N("end")), N("assign", var="i0", e=N("num", v=2, text="2"))], prio=None),
                N("clause", preds=[N("end")], body=[N("assign", var="i0", e=N("num", v=3, text="3"))], prio=None)])])]))
    out.append(N("prog", outs=[], hooks=["h0"], fcodes=[], ycodes=[], macros=[], args=[], body=[N("wait", p=N("lit", bs=b"ab", form="s")), N("hook", name="h0"), E]))
    out.append(N("prog", outs=[], hooks=["h0", "h1"], fcodes=[], ycodes=[], macros=[], args=[], body=[
        N("case", greedy=False, clauses=[
            N("clause", preds=[N("concat", parts=[N("lit", bs=b"a", form="s"), N("end")])], body=[N("hook", name="h0")], prio=None),
            N("clause", preds=[N("lit", bs=b"ab", form="s")], body=[N("hook", name="h1"), E], prio=None)])]))
    n0 = N("out", name="n0", typ="int", signed=None, width=None, default=0)
    num = lambda v: N("num", v=v, text=str(v))
    # finish statements in every position: the parser has reached its end, end() afterwards says DONE as well
    out.append(N("prog", outs=[n0], hooks=[], fcodes=[], ycodes=[], macros=[], args=[], body=[
        N("loop", label=None, body=[L(b"d"), N("match", p=N("rx", tree=("set", [("range", 48, 57), ("ch", 101)], False), binary=False)),
                                    N("if", branches=[(N("bin", op="!=", a=num(49), b=num(1000)), [N("break", label=None)])], orelse=None)]), N("finish", code=None)]))
    out.append(N("prog", outs=[n0], hooks=["h0"], fcodes=[], ycodes=[], macros=[], args=[], body=[L(b"0 "), N("finish", code=None)]))
    out.append(N("prog", outs=[n0], hooks=["h0"], fcodes=[], ycodes=[], macros=[], args=[], body=[
        L(b"a"), N("if", branches=[(N("bin", op="==", a=N("var", name="n0"), b=num(0)), [N("finish", code=None)])], orelse=None), L(b"b")]))
    out.append(N("prog", outs=[n0], hooks=["h0"], fcodes=[], ycodes=[], macros=[], args=[], body=[
        N("case", greedy=False, clauses=[N("clause", preds=[N("lit", bs=b"a", form="s")], body=[N("hook", name="h0"), N("finish", code=None)], prio=None),
                                         N("clause", preds=[N("lit", bs=b"b", form="s")], body=[L(b"c")], prio=None)]), L(b"z")]))
    return out


def replay(path):
    return c01.replay(path)
