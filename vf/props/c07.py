"""C07 - a compiled regular expression accepts exactly its language.

SUT: emitted C for `parser { /R/; end; }` (EOF support), one regex per parser, many parsers per sanitized binary.
Observation: after every prefix, end() on a deep copy of the state (DONE = prefix accepted), the feed code and the FAIL
pointer; plus a 256-byte sweep (one forced step per byte value) from several derivative states. Oracle: Brzozowski
derivatives of the regex over byte sets (vf/rx.py), written from the documented dialect.
"""
import itertools
import json

from .. import cdrv, gen, lang, nm, rx, work
from ..common import Ctx

LEVEL = "exploration"

A, B, C, D0 = ord("a"), ord("b"), ord("c"), ord("0")
ATOMS = [
    ("ch", A), ("ch", B), ("set", [("ch", A), ("ch", B)], False), ("set", [("ch", A)], True), ("any",), ("cls", "d"), ("cls", "W"), ("cls", "s"),
    ("set", [("range", A, C)], False), ("set", [("range", A, B), ("cls", "d")], True), ("ch", ord(".")), ("grp", ("seq", [("ch", A), ("ch", B)])),
    ("grp", ("alt", [("ch", A), ("seq", [("ch", B), ("ch", A)])])), ("cls", "w"), ("cls", "S"), ("cls", "D"), ("cls", "n"), ("ch", ord("-")),
    ("set", [("ch", ord("-")), ("ch", ord("]")), ("ch", ord("\\"))], False), ("ch", ord("$")), ("ch", ord("^")),
]
OPS = [None, "*", "+", "?", ("rep", 2, "exact"), ("rep", 1, 2), ("rep", 1, None), ("rep", 0, 2), ("rep", 0, "exact"), ("rep", 2, None)]


def apply_op(a, op):
    if op is None:
        return a
    if isinstance(op, str):
        return ("op", a, op)
    return ("rep", a, op[1], op[2])


def small_regexes(rng, n):
    """systematic single elements, then sampled 2-3 element sequences and alternations"""
    out = []
    for a in ATOMS:
        for op in OPS:
            out.append(apply_op(a, op))
    elems = list(out)
    while len(out) < n:
        k = rng.choice([2, 2, 3])
        seqs = []
        for _ in range(rng.choice([1, 1, 2])):
            xs = [rng.choice(elems) for _ in range(k if rng.random() < 0.7 else 1)]
            seqs.append(xs[0] if len(xs) == 1 else ("seq", xs))
        out.append(seqs[0] if len(seqs) == 1 else ("alt", seqs))
    return out[:n] if n < len(out) else out


def has_empty_class(tree):
    if tree is None:
        return False
    t = tree[0]
    if t == "set":
        return rx.to_sem(tree) == rx.EMPTY
    if t == "grp":
        return has_empty_class(tree[1])
    if t in ("alt", "seq"):
        return any(has_empty_class(x) for x in tree[1])
    if t in ("op", "rep"):
        return has_empty_class(tree[1])
    return False


def to_binary_ok(tree):
    """can this tree be printed as a binary regex (no classes)"""
    t = tree[0]
    if t == "cls":
        return False
    if t == "set":
        return all(it[0] != "cls" for it in tree[1])
    if t in ("grp",):
        return to_binary_ok(tree[1])
    if t in ("alt", "seq"):
        return all(to_binary_ok(x) for x in tree[1])
    if t in ("op", "rep"):
        return to_binary_ok(tree[1])
    return True


def terminal_regexes(ctx, rng, closed, n):
    """`parser { /R/; }` for regexes that cannot continue after a member (the parser is finished the moment R is): end() on a copy at
    every prefix says DONE exactly when the prefix is a member - with nothing behind the regex an END taken for a data byte by a
    wildcard / inverted-set edge that leads to the accept state shows as DONE on a proper prefix"""
    import itertools
    pick = closed if len(closed) <= n else rng.sample(closed, n)
    for chunk in work.chunked(pick, 30):
        progs = []
        for i, (tree, binary, sem) in enumerate(chunk):
            src = "parser {\n %s;\n}\n" % rx.src(tree, binary)
            args = ["-feof-support", "-findirect-start-ptr", rng.choice(["-O0", "-O1", "-O2", "-O3"])]
            r = nm.compile_source(src, args, name="p%d" % i)
            if not r.ok:
                ctx.count("terminal_regex_rejected")
                continue
            progs.append(cdrv.Prog(r, meta={"src": src, "args": args, "sem": sem, "regex": rx.src(tree, binary)}))
        if not progs:
            continue
        batch = cdrv.Batch(progs).build()
        runs, plan = [], {}
        for p in batch.live:
            sem = p.meta["sem"]
            reps = sorted(min(x) for x in rx.partition(rx.sets_in(sem)))
            if len(reps) > 5:
                reps = sorted(rng.sample(reps, 5))
            L = 1
            while len(reps) ** (L + 1) <= 60 and L < 5:
                L += 1
            for si, w in enumerate(itertools.product(reps, repeat=L)):
                lines = ["START", "ENDCOPY"]
                for b in w:
                    lines += ["FEED %02x" % b, "ENDCOPY"]
                rid = "%s.t%d" % (p.name, si)
                runs.append((rid, p, lines))
                plan[rid] = (p, bytes(w))
        res = batch.run(runs, timeout=900)
        ctx.count("binaries")
        for rid, (p, w) in plan.items():
            run_ = res.get(rid)
            if run_ is None or run_.abort:
                if run_ is not None:
                    ctx.violation("c07:sanitizer:" + run_.abort[0], "sanitizer report while matching: %s" % (run_.abort[1],), {"regex": p.meta["regex"], "nmfu_source": p.meta["src"], "nmfu_args": p.meta["args"], "input_hex": w.hex()})
                continue
            ctx.evaluations += 1
            q = p.meta["sem"]
            exp = [1]
            for b in w:
                q = rx.deriv(q, b)
                if q == rx.EMPTY:
                    break
                exp.append(2 if rx.nullable(q) else 1)
                if rx.nullable(q):
                    break
            got = [e[3] for e in run_.events if e[0] == "R" and e[1] == "C"][:len(exp)]
            ctx.count("terminal_regex_end_calls", len(got))
            if 2 in exp:
                ctx.nontrivial((p.meta["regex"], "terminal", w.hex()))
            if got != exp:
                j = next((i for i in range(len(exp)) if i >= len(got) or got[i] != exp[i]), 0)
                what = "end-accepts-proper-prefix" if (j < len(got) and got[j] == 2) else "end-rejects-member"
                ctx.violation("c07:terminal:" + what, "regex %s alone in a parser: end() after %r returns %s, expected %s" % (p.meta["regex"], w[:j], got[j] if j < len(got) else None, exp[j]),
                              {"regex": p.meta["regex"], "nmfu_source": p.meta["src"], "nmfu_args": p.meta["args"], "input_hex": w.hex(), "expected": exp, "observed": got})
        batch.cleanup()


def run(ctx: Ctx):
    rng = ctx.rng
    quick = ctx.quick
    n_small = 700 if quick else 6000
    n_rand = 500 if quick else 8000
    trees = [(t, False) for t in small_regexes(rng, n_small)]
    alpha_text = [A, B, C, D0, ord("1"), ord("_"), ord(" "), ord(";")]
    alpha_bin = [0, 1, 0x41, 0x61, 0x7f, 0x80, 0xfe, 0xff]
    for _ in range(n_rand):
        binary = rng.random() < 0.3
        trees.append((rx.gen(rng, alpha_bin if binary else alpha_text, depth=rng.choice([2, 3, 3]), binary=binary), binary))
    # some small ones also in binary form
    for t, _ in list(trees[:n_small:7]):
        if to_binary_ok(t):
            trees.append((t, True))
    per_batch = 30
    strings_budget = 90 if quick else 400
    sweep_states = 3 if quick else 8
    todo = []
    for tree, binary in trees:
        sem = rx.to_sem(tree)
        if sem == rx.EMPTY:
            ctx.count("empty_language_skipped")
            continue
        todo.append((tree, binary, sem))
    ctx.count("regexes_generated", len(todo))

    trees = {rx.src(t, b): t for t, b, sem in todo}

    import re as _re

    def classify(what, regex_src):
        if _re.search(r"\\ [wWdDsSntr]", regex_src):
            return "escaped-space-before-class-letter"
        # an unsatisfiable character class leaves a dead, non-accepting state in the matcher: the mismatch is reported one byte late
        if has_empty_class(trees.get(regex_src)) and what in ("no-fail-when-dead", "byte-class:accepts-extra-byte"):
            return "late-mismatch:empty-character-class"
        return None
    # probes for the escaped-space lexing quirk (known finding): source text written by hand, oracle from the documented meaning
    probes = [("/\\ d/", rx.lit(b" d")), ("/a\\ s+/", rx.seq(rx.lit(b"a "), rx.cat(rx.mkset([115]), rx.star(rx.mkset([115]))))), ("/x\\ \\ y/", rx.lit(b"x  y"))]
    lang.check_languages(ctx, [(rx.src(t, b), sem, None) for t, b, sem in todo] + [(ps, sem, [b" d", b"5", b"a s", b"a\t", b"x  y"]) for ps, sem in probes], rng, "c07", strings_budget=strings_budget, sweep_states=sweep_states, per_batch=per_batch, classify=classify)
    terminal_regexes(ctx, rng, [(t, b, sem) for t, b, sem in todo if not gen.tail_open(sem) and not rx.nullable(sem)], 150 if quick else 1500)
    ctx.floor("prefix_observations", 20000 if quick else 300000)
    ctx.floor("sweeps", 300)
    ctx.floor("terminal_regex_end_calls", 300)
    ctx.rule = ("case = (regex, string of class representatives) observed at every prefix through end() on a state copy, or (regex, derivative "
                "state, all 256 next bytes) by a forced one-byte sweep; regexes: every atom x repetition operator, sampled 2-3 element "
                "sequences/alternations, random larger ones incl. binary form and high bytes; non-trivial = some prefix is accepted, or a "
                "sweep; distinct by (regex, input)")
    ctx.assumptions += ["the derivative engine in vf/rx.py is the language definition (documented dialect: {n,m} = x{n} x?{m-n})",
                        "acceptance is observed as end() == DONE on `/R/; end;` (a trailing open regex reports FAIL on the terminating byte)"]


def replay(path):
    d = json.load(open(path))
    r = nm.compile_source(d["nmfu_source"], d["nmfu_args"], name="p0")
    print(d["regex"], "compile:", r.status)
    if not r.ok:
        return 1
    p = cdrv.Prog(r)
    b = cdrv.Batch([p]).build()
    if "input_hex" in d:
        w = bytes.fromhex(d["input_hex"])
        lines = ["START", "ENDCOPY"]
        for x in w:
            lines += ["FEED %02x" % x, "ENDCOPY"]
    else:
        w = bytes.fromhex(d["prefix_hex"])
        lines = ["START"] + (["FEED " + w.hex()] if w else []) + ["SWEEP"]
    res = b.run([("x", p, lines)])
    for e in res["x"].events:
        print(e if e[0] != "W" else ("W", e[1][d.get("byte", 0)]))
    print("expected:", d.get("expected"))
    b.cleanup()
    return 0
