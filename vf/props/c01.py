"""C01 - accepted programs behave as their procedural reading prescribes.

SUT: emitted C (ASan+UBSan), indirect pointer, one byte per feed call so every event is attributed to a byte.
Oracle: the reference interpreter vf/ri.py (procedural reading of the language reference over the harness AST) with the
explicit timing slack of DESIGN.md 2.5 (an action between two consumed bytes may run with either; actions pending when an
error strikes may be lost).
"""
import json
import pickle

from .. import cdrv, gen, nm, ri, trace, work
from ..common import Ctx

LEVEL = "exploration"

PROFILES = [
    {"w": {"hook": 14, "finish": 4, "try_": 9, "case": 9, "loop": 8, "appendm": 10, "appendc": 5, "assignstr": 4, "wait": 3}, "str_defaults": 0.2},
    {"yields": True, "w": {"yield_": 9, "hook": 10, "loop": 10, "case": 10}},
    {"w": {"gcase": 6, "case": 6, "hook": 12, "foreach": 8, "if_": 9, "assign": 14}},
    {"depth": 4, "maxstmts": 3, "w": {"try_": 12, "optional": 9, "hook": 12, "loop": 9}},
    {"depth": 3, "maxstmts": 4, "w": {"optional": 14, "try_": 12, "foreach": 8, "if_": 10, "hook": 22, "assign": 16, "case": 16, "wait": 10, "match": 12, "appendm": 4}},
]


RI_PROFILE = {"no_action_after_open": True, "optional_nonreentrant": True, "strict_after_open": 0.0}


def run_pool(ctx, rng, quick, pool, key_prefix, with_end=False, nwalk=None, enum_budget=None, cap=None, on_case=None, pointers=False, extra_inputs=None):
    stats = ctx.extra.setdefault("oracle_slack_counters", {})
    nwalk = nwalk or (40 if quick else 90)
    enum_budget = enum_budget or (150 if quick else 800)
    cap = cap or (150 if quick else 500)
    for chunk in work.chunked(pool, 28):
        progs = []
        for i, (ast, src, args, r0) in enumerate(chunk):
            r = nm.compile_source(src, args, name="p%d" % i)
            if not r.ok:
                continue
            p = cdrv.Prog(r, meta={"src": src, "args": args, "ast": ast})
            ins, reps, L = work.inputs_for(r, rng, ast, nwalk=nwalk, enum_budget=enum_budget)
            if len(ins) > cap:
                short = [x for x in ins if len(x) <= 2]
                rest = [x for x in ins if len(x) > 2]
                ins = short[:cap // 4] + rng.sample(rest, min(len(rest), cap - min(len(short), cap // 4)))
            if extra_inputs:
                ins = sorted(set(ins) | set(extra_inputs(rng, ast, ins)), key=lambda b: (len(b), b))
            p.meta["inputs"] = ins
            p.meta["L"] = L
            progs.append(p)
        if not progs:
            continue
        batch = cdrv.Batch(progs).build()
        for p, err in batch.failed:
            ctx.count("c_compile_failures")
        runs = []
        for p in batch.live:
            for ii, bs in enumerate(p.meta["inputs"]):
                lines = ["QUIETOK 1", "START", "FEED1 " + cdrv.hexs(bs), "SNAP"]
                if with_end and p.eof:
                    lines.append("END")
                    lines.append("ENDIFDONE")      # the program has reached its end: end() has to say DONE as well
                lines.append("FREE")
                runs.append(("%s.%d" % (p.name, ii), p, lines))
        res = batch.run(runs, timeout=1200, zero_heap=True)
        ctx.count("binaries")
        if batch.guards:
            ctx.count("cov_edges_hit", batch.guards[0]); ctx.count("cov_edges_total", batch.guards[1])
        for rid, run_ in res.items():
            p = run_.prog
            bs = p.meta["inputs"][int(rid.split(".")[1])]
            items = trace.normal_form(run_, p)
            late = [x for x in items if x[0] == "T" and x[6] == "D"]
            if late:
                items = [x for x in items if not (x[0] == "T" and x[6] == "D")]
                ctx.count("end_after_done_calls")
                if p.code_name(late[0][1]) != "DONE":
                    ctx.violation("%s:end-after-done-returns-%s" % (key_prefix, p.code_name(late[0][1])),
                                  "feed() reported DONE, end() called afterwards returns %s" % p.code_name(late[0][1]),
                                  {"nmfu_source": p.meta["src"], "nmfu_args": p.meta["args"], "input_hex": bs.hex()})
            ctx.evaluations += 1
            ctx.count("runs_checked")
            ctx.count("bytes_fed", len(bs))
            ev = [x for x in items if x[0] in ("H", "Y", "T")]
            ctx.count("hook_events", sum(1 for x in ev if x[0] == "H"))
            ctx.count("yield_events", sum(1 for x in ev if x[0] == "Y"))
            for x in ev:
                if x[0] == "T":
                    ctx.count("terminal_" + p.code_name(x[1]).split("_")[0])
            if run_.abort and run_.abort[0] == "watchdog":
                ctx.count("watchdog_inconclusive")
                continue
            use_end = bool(with_end and p.eof)
            v = ri.check(p.meta["ast"], bs, items, p, stats, with_end=use_end, pointers=pointers and p.indirect)
            if v is None:
                if ev:
                    ctx.nontrivial((p.meta["src"], bs.hex()))
                if on_case:
                    on_case(p, bs, items)
                continue
            if v[0] == "unknown":
                ctx.count("reading_undefined_skipped")
                k = "skipped: " + v[1][:60]
                ctx.extra.setdefault("skipped_reasons", {})
                ctx.extra["skipped_reasons"][k] = ctx.extra["skipped_reasons"].get(k, 0) + 1
                continue
            what, text = v
            r0 = ri.RI(p.meta["ast"], bs, with_end=use_end)
            try:
                r0.run()
                expected = [repr(e) for e in r0.effects if e.kind != "set"][:30]
            except Exception as e:
                expected = ["<%s>" % e]
            ctx.violation("%s:%s" % (key_prefix, what), text, {
                "nmfu_source": p.meta["src"], "nmfu_args": p.meta["args"], "input_hex": bs.hex(), "input": bs.decode("latin-1"),
                "observed": trace.describe(items, p, 30), "prescribed_effects": expected, "stderr": (run_.stderr or "")[-1000:],
                "ast_pickle_hex": pickle.dumps(p.meta["ast"]).hex(), "items": [list(x) for x in items]})
        if not ctx.samples and res:
            rid, run_ = next(iter(res.items()))
            ctx.sample({"program": run_.prog.meta["src"][:700], "args": run_.prog.meta["args"],
                        "input": run_.prog.meta["inputs"][int(rid.split(".")[1])].decode("latin-1"), "observed": trace.describe(trace.normal_form(run_, run_.prog), run_.prog, 8)})
        if len(ctx.samples) < 4 and batch.live:
            for rid, run_ in res.items():
                it = trace.normal_form(run_, run_.prog)
                if sum(1 for x in it if x[0] in ("H", "Y")) >= 2:
                    ctx.sample({"program": run_.prog.meta["src"][:700], "args": run_.prog.meta["args"],
                                "input": run_.prog.meta["inputs"][int(rid.split(".")[1])].decode("latin-1"), "observed": trace.describe(it, run_.prog, 8)})
                    break
        batch.cleanup()


def chained_shapes(rng, n):
    """`"<"; BLOCK; ACTIONS; NEXT; "!"`: actions that nmfu has to chain through the end of a block (or place at the head of a clause /
    handler) in front of every kind of next statement, including ones whose first transitions are else / restart transitions"""
    N = gen.N
    L = lambda b: N("match", p=N("lit", bs=b, form="s"))
    num = lambda v: N("num", v=v, text=str(v))
    inc = lambda: N("assign", var="n", e=N("bin", op="+", a=N("var", name="n"), b=num(1)))
    out = []
    for _ in range(n):
        blocks = [
            lambda: N("optional", body=[L(b"a")]),
            lambda: N("optional", body=[L(b"a"), L(b"c")]),
            lambda: N("try", body=[L(b"a")], reasons=rng.choice([None, ["nomatch"]]), handler=[]),
            lambda: N("try", body=[L(b"a"), L(b"c")], reasons=["nomatch"], handler=[N("hook", name="g")]),
            lambda: N("foreach", body=[L(b"aa")], do=[N("assign", var="m", e=N("bin", op="+", a=N("var", name="m"), b=num(1)))]),
            lambda: N("case", greedy=False, clauses=[N("clause", preds=[N("lit", bs=b"a", form="s"), N("lit", bs=b"cd", form="s")], body=[rng.choice([L(b"d"), N("foreach", body=[L(b"d")], do=[N("hook", name="g")])])], prio=None),
                                                     N("clause", preds=[N("lit", bs=b"e", form="s")], body=[], prio=None)]),
            lambda: N("try", body=[N("case", greedy=False, clauses=[N("clause", preds=[N("lit", bs=b"a", form="s"), N("lit", bs=b"cd", form="s")], body=[L(b"d")], prio=None),
                                                                     N("clause", preds=[N("lit", bs=b"e", form="s")], body=[], prio=None)])], reasons=None, handler=[]),
            lambda: N("try", body=[N("optional", body=[L(b"a")])], reasons=rng.choice([None, ["nomatch"]]), handler=[N("hook", name="g")]),
            lambda: N("foreach", body=[N("optional", body=[L(b"a"), L(b"c")])], do=[N("assign", var="m", e=N("bin", op="+", a=N("var", name="m"), b=num(1)))]),
            lambda: N("try", body=[N("try", body=[N("optional", body=[L(b"a")])], reasons=["nomatch"], handler=[])], reasons=None, handler=[N("hook", name="g")]),
            lambda: N("if", branches=[(N("bin", op="==", a=N("var", name="m"), b=num(0)), [L(b"a")])], orelse=None),
            lambda: N("if", branches=[(N("bin", op="==", a=N("var", name="m"), b=num(7)), [L(b"a")])], orelse=[L(b"c")]),
            lambda: N("case", greedy=False, clauses=[N("clause", preds=[N("lit", bs=b"a", form="s")], body=[], prio=None),
                                                     N("clause", preds=[N("lit", bs=b"c", form="s")], body=[L(b"d")], prio=None)]),
        ]
        actions = rng.choice([
            lambda: [N("hook", name="h")], lambda: [inc()], lambda: [N("hook", name="h"), inc()], lambda: [inc(), N("hook", name="h")],
            lambda: [N("appendc", var="s", e=num(65)), N("hook", name="h")], lambda: [N("hook", name="h"), N("hook", name="g")],
            # (not droppable: a finish in front of the next statement ends the parse whatever the next byte is)
            lambda: [N("if", branches=[(N("bin", op="==", a=N("var", name="n"), b=num(0)), [N("finish", code=None)])], orelse=None)],
            lambda: [N("hook", name="h"), N("if", branches=[(N("bin", op="==", a=N("var", name="m"), b=num(0)), [N("finish", code=None)])], orelse=None)],
        ])
        nexts = [
            lambda: [N("case", greedy=False, clauses=[N("clause", preds=[N("lit", bs=b"b", form="s")], body=[N("assign", var="r", e=num(1))], prio=None),
                                                      N("clause", preds=["else"], body=[N("assign", var="r", e=num(2)), N("wait", p=N("lit", bs=b">", form="s"))], prio=None)])],
            lambda: [N("wait", p=N("lit", bs=b">", form="s"))],
            lambda: [N("wait", p=N("lit", bs=b"b>", form="s"))],
            lambda: [N("case", greedy=False, clauses=[N("clause", preds=[N("lit", bs=b"b", form="s"), "else"], body=[N("hook", name="g")], prio=None)]), L(b">")],
            lambda: [L(b"b")],
            lambda: [N("match", p=N("rx", tree=("op", ("set", [("ch", 97), ("ch", 99)], True), "+"), binary=False)), L(b"a")],
        ]
        shape = rng.random()
        if shape < 0.12:
            # a handler that begins with actions and can then match nothing, entered by a mismatch or by running out of space
            ovf = rng.choice([lambda: N("appendm", var="s", p=N("lit", bs=b"abc", form="s")), lambda: N("appendm", var="s", p=N("rx", tree=("op", ("ch", 97), "+"), binary=False))])
            handler = actions() + [rng.choice(blocks[:2])()] + rng.choice([[], [L(b"c")]])
            body = [N("try", body=[L(b"<"), ovf(), L(b"q")], reasons=rng.choice([None, ["outofspace"], ["nomatch", "outofspace"]]), handler=handler), N("hook", name="t"), L(b"!")]
        elif shape < 0.7:
            body = [L(b"<"), rng.choice(blocks)()] + actions() + rng.choice(nexts)() + [N("hook", name="t"), L(b"!")]
        elif shape < 0.9:
            body = [N("case", greedy=False, clauses=[
                N("clause", preds=[N("lit", bs=b"k", form="s")], body=actions() + rng.choice(nexts)() + [N("assign", var="r", e=num(3))], prio=None),
                N("clause", preds=[N("lit", bs=b"<", form="s")], body=[rng.choice(blocks)()] + actions(), prio=None)]), N("hook", name="t"), L(b"!")]
        else:
            body = [N("try", body=[L(b"<"), L(b"q")], reasons=None, handler=actions() + rng.choice(nexts)()), N("hook", name="t"), L(b"!")]
        outs = [N("out", name="n", typ="int", signed=None, width=None, default=0), N("out", name="m", typ="int", signed=None, width=None, default=0),
                N("out", name="r", typ="int", signed=None, width=None, default=0), N("out", name="s", typ="str", size=3, default=None)]
        out.append(N("prog", outs=outs, hooks=["h", "g", "t"], fcodes=[], ycodes=[], macros=[], body=body, args=[]))
    return out


def loop_tail_shapes(rng, n, yields=False, family=None):
    """loops whose body ENDS in a block that leads nowhere by itself (an if / case clause of actions only, a conditional break, an
    action-only handler): the way back to the loop start is only linked afterwards, so the block has no symbols of its own when it
    is appended after the preceding match. Also `append; yield` sequences on one clause with a string small enough to overflow."""
    N = gen.N
    L = lambda b: N("match", p=N("lit", bs=b, form="s"))
    num = lambda v: N("num", v=v, text=str(v))
    var = lambda x: N("var", name=x)
    digits = lambda: N("rx", tree=("op", ("cls", "d"), "+"), binary=False)
    out = []
    for _ in range(n):
        ycodes = ["YA", "YB"] if yields else []
        def actions():
            ch = [lambda: [N("hook", name="h")], lambda: [N("assign", var="m", e=N("bin", op="+", a=var("m"), b=num(1)))],
                  lambda: [N("hook", name="h"), N("assign", var="n", e=num(0))], lambda: [N("assign", var="n", e=num(0)), N("hook", name="g")]]
            if yields:
                ch += [lambda: [N("yield", code="YA")], lambda: [N("hook", name="h"), N("yield", code="YB")], lambda: [N("assign", var="n", e=num(0)), N("yield", code="YA")]]
            return rng.choice(ch)()
        k = rng.choice([1, 5, 20, 100])
        cond = lambda: N("bin", op=rng.choice([">", ">=", "==", "!="]), a=var(rng.choice(["n", "n", "m"])), b=num(rng.choice([0, 1, 2, k])))
        heads = [
            lambda: [N("foreach", body=[N("match", p=digits())], do=[N("assign", var="n", e=N("bin", op="+", a=N("bin", op="*", a=var("n"), b=num(10)), b=N("bin", op="-", a=N("last"), b=num(48))))]), L(b";")],
            lambda: [L(b"a"), N("assign", var="n", e=N("bin", op="+", a=var("n"), b=num(1))), L(b";")],
            lambda: [N("appendm", var="s", p=N("lit", bs=b"ab", form="s")), N("assign", var="n", e=N("len", name="s"))],
            lambda: [N("case", greedy=False, clauses=[N("clause", preds=[N("lit", bs=b"a", form="s")], body=[N("assign", var="n", e=N("bin", op="+", a=var("n"), b=num(1)))], prio=None),
                                                      N("clause", preds=[N("lit", bs=b"b", form="s")], body=[N("assign", var="m", e=N("bin", op="+", a=var("m"), b=num(1)))], prio=None)]), L(b";")],
        ]
        tails = [
            lambda: [N("if", branches=[(cond(), actions())], orelse=None)],
            lambda: [N("if", branches=[(cond(), actions())], orelse=actions())],
            lambda: [N("if", branches=[(cond(), actions()), (cond(), actions())], orelse=None)],
            lambda: [N("if", branches=[(cond(), [N("break", label=None)])], orelse=None)],
            lambda: [N("if", branches=[(cond(), actions())], orelse=[N("break", label=None)])],
            lambda: [N("if", branches=[(cond(), [N("if", branches=[(cond(), actions())], orelse=None)])], orelse=None)],
            lambda: [N("if", branches=[(cond(), actions())], orelse=None), N("if", branches=[(cond(), actions())], orelse=None)],
            lambda: [N("wait", p=N("lit", bs=b"#", form="s")), N("break", label=None)],
            lambda: [N("wait", p=N("lit", bs=b"#", form="s")), N("if", branches=[(cond(), [N("break", label=None)])], orelse=None)],
        ]
        if family == "break-in-block":
            # a block inside a loop, one path of which ends in an unconditional break, followed by actions in the loop body: the
            # actions after the block belong to the paths that stay in the loop only
            lit = lambda b: N("lit", bs=b, form="s")
            brk = lambda: N("break", label=None)
            blk = rng.choice([
                lambda: N("case", greedy=False, clauses=[N("clause", preds=[lit(b"d")], body=[L(b"b"), brk()], prio=None), N("clause", preds=[lit(b"q")], body=rng.choice([[], [L(b"r")]]), prio=None)]),
                lambda: N("try", body=[L(b"db"), brk()], reasons=None, handler=[L(b"q")]),
                lambda: N("case", greedy=False, clauses=[N("clause", preds=[lit(b"d")], body=[brk()], prio=None), N("clause", preds=[lit(b"q"), "else"], body=[N("match", p=N("rx", tree=("any",), binary=False))], prio=None)]),
                lambda: N("try", body=[N("case", greedy=False, clauses=[N("clause", preds=[lit(b"d")], body=[L(b"b"), brk()], prio=None), N("clause", preds=[lit(b"q")], body=[], prio=None)])], reasons=["nomatch"], handler=[L(b"x")])])()
            body = [L(b"<"), N("loop", label=None, body=[blk] + actions()), N("hook", name="t"), L(b"!")]
            outs = [N("out", name="n", typ="int", signed=None, width=None, default=0), N("out", name="m", typ="int", signed=None, width=None, default=0),
                    N("out", name="s", typ="str", size=3, default=None)]
            out.append(N("prog", outs=outs, hooks=["h", "g", "t"], fcodes=[], ycodes=ycodes, macros=[], body=body, args=["-fyield-support"] if yields else []))
            continue
        if family == "yield-chain":
            # a yield that ends a block, directly followed by another yield / action after the block: the states behind a yield only hold
            # the actions that follow it (they look like removable dummies to the optimiser)
            lit = lambda b: N("lit", bs=b, form="s")
            inner = rng.choice([
                lambda: [N("case", greedy=False, clauses=[N("clause", preds=["else"], body=[], prio=None), N("clause", preds=[lit(b"a\n")], body=[N("hook", name="h")], prio=None)])],
                lambda: [N("try", body=[L(b"ab")], reasons=["nomatch"], handler=[])],
                lambda: [N("try", body=[L(b"a"), N("hook", name="g")], reasons=None, handler=[N("hook", name="h")])],
                lambda: []])()
            tail = rng.choice([lambda: [N("yield", code="YB")], lambda: [N("yield", code="YB"), N("hook", name="t")], lambda: [N("hook", name="t"), N("yield", code="YB")],
                               lambda: [N("yield", code="YB"), N("yield", code="YA")], lambda: [N("assign", var="n", e=num(5)), N("yield", code="YB"), L(b"!")]])()
            blk = rng.choice([
                lambda: N("case", greedy=False, clauses=[N("clause", preds=[lit(b"1")], body=inner + [N("yield", code="YA")], prio=None), N("clause", preds=[lit(b"2")], body=[N("yield", code="YA")], prio=None)]),
                lambda: N("try", body=[L(b"1")] + inner + [N("yield", code="YA")], reasons=["nomatch"], handler=[N("yield", code="YA")]),
                lambda: N("if", branches=[(N("bin", op="==", a=var("n"), b=num(0)), [L(b"1")] + inner + [N("yield", code="YA")])], orelse=[N("yield", code="YA")])])()
            body = [L(b"<"), blk] + tail
            outs = [N("out", name="n", typ="int", signed=None, width=None, default=0), N("out", name="m", typ="int", signed=None, width=None, default=0),
                    N("out", name="s", typ="str", size=3, default=None)]
            out.append(N("prog", outs=outs, hooks=["h", "g", "t"], fcodes=[], ycodes=["YA", "YB"], macros=[], body=body, args=["-fyield-support"]))
            continue
        shape = 0.95 if family == "append-yield" else rng.random()
        if shape < 0.75:
            lp = N("loop", label=None, body=rng.choice(heads)() + rng.choice(tails)())
            has_break = "break;" in gen.stmt_src(lp)
            r_ = rng.random()
            if has_break and r_ < 0.25:
                # the loop ends a try body and only actions follow the try, at the very end of the program
                body = [N("try", body=[L(b"<"), lp], reasons=rng.choice([None, ["nomatch"]]), handler=rng.choice([[], [N("hook", name="g")]]))] + actions()
            elif has_break and r_ < 0.4:
                body = [L(b"<"), N("try", body=[lp], reasons=None, handler=[N("hook", name="g")]), N("hook", name="t"), L(b"!")]
            else:
                body = [L(b"<"), lp] + ([N("hook", name="t"), L(b"!")] if has_break else [])
        elif shape < 0.9 or not yields:
            # the same tail at the end of a case clause / handler inside the loop
            inner = N("case", greedy=False, clauses=[N("clause", preds=[N("lit", bs=b"x", form="s")], body=rng.choice(heads)() + rng.choice(tails)(), prio=None),
                                                      N("clause", preds=[N("lit", bs=b"y", form="s")], body=[N("hook", name="g")] + rng.choice(tails)(), prio=None)])
            lp = N("loop", label=None, body=[inner])
            body = [L(b"<"), lp] + ([N("hook", name="t"), L(b"!")] if "break;" in gen.stmt_src(lp) else [])
        else:
            # an append and a yield on one clause, string small enough to overflow (with and without a handler)
            cl = lambda lit, acts: N("clause", preds=[N("lit", bs=lit, form="s")], body=acts, prio=None)
            app = lambda: rng.choice([lambda: N("appendm", var="s", p=N("lit", bs=b"b", form="s")), lambda: N("appendc", var="s", e=rng.choice([num(65), N("last")]))])()
            case = N("case", greedy=False, clauses=[cl(b"a", [app(), N("yield", code="YA")]), cl(b"c", [app(), N("hook", name="h"), N("yield", code="YB")]),
                                                    cl(b"d", [N("yield", code="YB"), app()])][: rng.choice([1, 2, 3])])
            lp = N("loop", label=None, body=[case])
            body = [N("try", body=[lp], reasons=["outofspace"], handler=[N("hook", name="g"), L(b"!")])] if rng.random() < 0.4 else [lp]
        outs = [N("out", name="n", typ="int", signed=None, width=None, default=0), N("out", name="m", typ="int", signed=None, width=None, default=0),
                N("out", name="s", typ="str", size=rng.choice([2, 3, 5]), default=None)]
        out.append(N("prog", outs=outs, hooks=["h", "g", "t"], fcodes=[], ycodes=ycodes, macros=[], body=body, args=["-fyield-support"] if yields else []))
    return out


def capacity_boundary_shapes(rng, n):
    N = gen.N
    """strings whose capacity sits at a width boundary of the length counter (255 / 256 / 257, terminated or not), filled to the brim:
    the out-of-space condition must strike at exactly the byte that no longer fits"""
    L = lambda s: N("match", p=N("lit", bs=s, form="s"))
    out = []
    for _ in range(n):
        cap = rng.choice([255, 256, 256, 257])
        s0 = N("out", name="s0", typ=rng.choice(["str", "ustr", "ustr"]), size=cap, default=None)
        i0 = N("out", name="i0", typ="int", signed=None, width=None, default=0)
        letters = N("rx", tree=("op", ("set", [("range", 97, 122)], False), "+"), binary=False)
        rest = N("rx", tree=("op", ("set", [("range", 97, 122)], False), "*"), binary=False)
        body = [N("appendm", var="s0", p=letters), L(b";")]
        k = rng.random()
        if k < 0.6:
            stm = N("try", body=body, reasons=["outofspace"], handler=[N("assign", var="i0", e=N("len", name="s0")), N("hook", name="h0"), N("match", p=rest), L(b";")])
            prog = [stm, N("hook", name="h1")]
        else:
            prog = body + [N("hook", name="h1")]
        out.append(N("prog", outs=[s0, i0], hooks=["h0", "h1"], fcodes=[], ycodes=[], macros=[], args=[], body=prog))
    return out


def capacity_inputs(rng, ast, ins):
    cap = ast.outs[0].size
    out = []
    for n in (cap - 2, cap - 1, cap, cap + 1, 2 * cap + 3):
        out.append(bytes(rng.choice(b"abcdefghijklmnopqrstuvwxyz") for _ in range(n)) + b";")
    return out


def add_shapes(ctx, rng, pool, asts, counter, levels=("-O0", "-O1", "-O2", "-O3")):
    """compile harness ASTs at a random level and put the accepted ones into a run_pool pool"""
    n = 0
    for ast in asts:
        src = gen.prog_src(ast)
        args = list(ast.args) + [rng.choice(levels), "-findirect-start-ptr"]
        r = nm.compile_source(src, args, name="p0", keep=False)
        ctx.count("programs_generated")
        if r.ok:
            pool.append((ast, src, args, None))
            n += 1
    ctx.cov[counter] = ctx.cov.get(counter, 0) + n
    return n


def run(ctx: Ctx):
    rng = ctx.rng
    quick = ctx.quick
    n_per = 16 if quick else 150
    pool = []
    gen_n = acc_n = 0
    kinds = {}
    for prof in PROFILES:
        pl, st = work.generated_pool(rng, n_per, profile=dict(prof, **RI_PROFILE), args_fn=lambda rng, ast: [rng.choice(["-O0", "-O1", "-O2", "-O3"]), "-findirect-start-ptr"])
        pool += pl
        gen_n += st["generated"]
        acc_n += st["accepted"]
        for ast, *_ in pl:
            for k, v in gen.kinds_of(ast).items():
                kinds[k] = kinds.get(k, 0) + 1
    shaped = 0
    for ast in chained_shapes(rng, 60 if quick else 500):
        src = gen.prog_src(ast)
        args = [rng.choice(["-O0", "-O1", "-O2", "-O3"]), "-findirect-start-ptr"]
        r = nm.compile_source(src, args, name="p0", keep=False)
        gen_n += 1
        if r.ok:
            pool.append((ast, src, args, None))
            shaped += 1
            acc_n += 1
    ctx.cov["chained_action_shapes_accepted"] = shaped
    ctx.cov.update({"programs_generated": gen_n, "programs_accepted": acc_n})
    acc_n += add_shapes(ctx, rng, pool, loop_tail_shapes(rng, 24 if quick else 240) + loop_tail_shapes(rng, 12 if quick else 120, yields=True), "loop_tail_shapes_accepted")
    acc_n += add_shapes(ctx, rng, pool, loop_tail_shapes(rng, 8 if quick else 80, yields=True, family="append-yield"), "append_yield_shapes_accepted", levels=("-O0", "-O2", "-O3", "-O3"))
    acc_n += add_shapes(ctx, rng, pool, loop_tail_shapes(rng, 10 if quick else 100, yields=True, family="yield-chain"), "yield_chain_shapes_accepted", levels=("-O0", "-O3", "-O3"))
    acc_n += add_shapes(ctx, rng, pool, loop_tail_shapes(rng, 10 if quick else 100, family="break-in-block"), "break_in_block_shapes_accepted")
    ctx.cov["programs_accepted"] = acc_n
    ctx.extra["node_kinds_in_accepted"] = kinds
    run_pool(ctx, rng, quick, pool, "c01")
    cpool = []
    add_shapes(ctx, rng, cpool, capacity_boundary_shapes(rng, 6 if quick else 40), "capacity_boundary_shapes_accepted")
    run_pool(ctx, rng, quick, cpool, "c01", nwalk=4, enum_budget=10, cap=12, extra_inputs=capacity_inputs)
    ctx.floor("capacity_boundary_shapes_accepted", 3)
    ctx.floor("runs_checked", 3000 if quick else 60000)
    ctx.floor("hook_events", 300)
    ctx.floor("yield_events", 30)
    ctx.floor("terminal_FAIL", 300)
    ctx.floor("terminal_DONE", 100)
    for k in ("loop", "case", "try", "optional", "foreach", "if", "wait", "appendm", "break"):
        ctx.inconclusive_if(not kinds.get(k), "node kind %s never appeared in an accepted program" % k)
    ctx.rule = ("case = (accepted generated program over all statement kinds, input): every string up to a length bound over the program's "
                "byte classes, guided random walks of the compiled machine and their mutations, fed one byte per call; the observed hooks "
                "(with outputs), yields, terminal result, pointer positions and final outputs must be allowed by the reference "
                "interpreter under the stated slack; non-trivial = at least one event; distinct by (source, input)")
    ctx.assumptions += ["vf/ri.py is the procedural reading (written from docs/user-ref/parser.md, independent of nmfu's convert())",
                        "cases where the reading is undefined (user arithmetic UB) are skipped and counted"]


def replay(path):
    d = json.load(open(path))
    print(d["nmfu_source"])
    print(d["nmfu_args"], repr(d["input"]))
    print("observed:", d["observed"])
    print("prescribed:", d["prescribed_effects"])
    print(d["what"])
    return 0
