"""C10 - result codes and the start pointer follow the documented protocol.

SUT: emitted C, indirect start pointer. Monitors: (A) the reference interpreter's consumed-byte count against the pointer
left by FAIL (first offending byte), DONE (last byte read), yield codes (resume position: no byte lost or repeated) and
the points at which DONE / finish codes appear; (B) an online protocol monitor over call histories: OK only with the pointer
at the chunk end, and after a FAIL every later feed (any bytes, zero-length where supported) and end() returns FAIL;
(C) the strict-done build differs from the normal build only by DONE arriving one call later.
"""
import json
import re

from .. import cdrv, diff, gen, nm, trace, work
from ..common import Ctx
from . import c01

LEVEL = "exploration"


def strict_compare(ref_items, items, p0, p, bs):
    """p0: normal build, p: -fstrict-done-token-generation build"""
    a = [x for x in ref_items if x[0] in ("H", "Y", "T")]
    b = [x for x in items if x[0] in ("H", "Y", "T")]
    ta = a[-1] if a and a[-1][0] == "T" else None
    tb = b[-1] if b and b[-1][0] == "T" else None
    ha = a[:-1] if ta else a
    hb = b[:-1] if tb else b
    def nooff(x):      # yield offsets are judged in part A
        return (x[0], x[1], x[3]) if x[0] == "Y" else trace.strip_chunk(x)
    if [nooff(x) for x in ha] != [nooff(x) for x in hb]:
        return ("c10:strict-done:events-differ", "events before the terminal result differ: %s vs %s" % (ha[:4], hb[:4]))
    done = p0.codes.index("DONE")
    if ta is None:
        if tb is not None:
            return ("c10:strict-done:extra-terminal", "strict-done build returns %s, the normal build none" % (tb[:3],))
        return None
    if ta[1] != done:
        if tb is None or tb[:4] != ta[:4] or tb[4] != ta[4]:
            return ("c10:strict-done:non-done-terminal-differs", "normal %s vs strict %s" % (ta[:5], tb[:5] if tb else None))
        return None
    # normal build returned DONE while processing byte ta[4]
    if tb is None:
        if ta[4] >= len(bs) - 1:
            return None        # postponed past the end of the input
        return ("c10:strict-done:done-lost", "normal build DONE at byte %d of %d, strict build never" % (ta[4], len(bs)))
    if tb[1] != done:
        return ("c10:strict-done:code-differs", "normal DONE, strict %s" % p.code_name(tb[1]))
    if tb[4] not in (ta[4], ta[4] + 1):
        return ("c10:strict-done:done-more-than-one-call-later", "normal DONE at call for byte %d, strict at byte %d" % (ta[4], tb[4]))
    if tb[3] != ta[3] and diff.strip_snap_repr(tb[3]) != diff.strip_snap_repr(ta[3]):
        return ("c10:strict-done:store-differs", "outputs differ at DONE")
    return None


def run(ctx: Ctx):
    rng = ctx.rng
    quick = ctx.quick
    # ---- A: pointer positions against the reference interpreter ------------------------------------------------
    n_per = 14 if quick else 200
    profiles = [
        {"w": {"hook": 10, "finish": 6, "try_": 9, "appendm": 10, "appendc": 6}, "str_caps": (1, 2, 3)},
        {"yields": True, "w": {"yield_": 12, "hook": 6, "loop": 10, "case": 10, "gcase": 4, "break_": 6}},
        {"yields": True, "w": {"yield_": 10, "optional": 8, "try_": 8, "finish": 5}},
    ]
    pool = []
    for prof in profiles:
        pl, st = work.generated_pool(rng, n_per, profile=dict(prof, **c01.RI_PROFILE),
                                     args_fn=lambda rng, ast: [rng.choice(["-O0", "-O1", "-O2", "-O3"]), "-findirect-start-ptr"])
        pool += pl
        ctx.count("programs_generated", st["generated"])
    c01.add_shapes(ctx, rng, pool, c01.loop_tail_shapes(rng, 12 if quick else 160, yields=True), "loop_tail_shapes_accepted")
    c01.add_shapes(ctx, rng, pool, c01.loop_tail_shapes(rng, 10 if quick else 100, yields=True, family="append-yield"), "append_yield_shapes_accepted", levels=("-O0", "-O2", "-O3", "-O3"))
    # lexer-style loops over a greedy case (clauses that are prefixes of one another, action-only clauses): final states that can go on matching
    from . import c08
    c01.add_shapes(ctx, rng, pool, [c08.case_program(rng, True) for _ in range(8 if quick else 100)] + c08.prefix_loop_shapes(rng, 10 if quick else 120), "greedy_loop_shapes_accepted")
    c01.add_shapes(ctx, rng, pool, c01.loop_tail_shapes(rng, 8 if quick else 80, yields=True, family="yield-chain"), "yield_chain_shapes_accepted", levels=("-O0", "-O3", "-O3"))
    c01.add_shapes(ctx, rng, pool, c08.open_token_shapes(rng, 10 if quick else 120), "open_token_shapes_accepted", levels=("-O0", "-O2", "-O3", "-O3"))
    c01.run_pool(ctx, rng, quick, pool, "c10", pointers=True, nwalk=35 if quick else 80)

    # ---- B: protocol monitor over hostile call histories (generated + corpus, no model needed) -------------------
    entries = [(src, args + rng.choice([[], ["-fzero-len-input-support"], ["-feof-support"]]), ast) for ast, src, args, r in pool[: (24 if quick else 300)]]
    for fn, src, args, seeds in work.corpus():
        b = fn.rsplit("/", 1)[-1]
        if quick and b in ("gtfs-realtime.nmfu", "ttc_rdf.nmfu"):
            continue
        if "-findirect-start-ptr" not in args:
            args = args + ["-findirect-start-ptr"]
        entries.append((src, args, None))
    for chunk in work.chunked(entries, 28):
        progs = []
        for i, (src, args, ast) in enumerate(chunk):
            r = nm.compile_source(src, args, name="p%d" % i)
            if not r.ok:
                continue
            p = cdrv.Prog(r, meta={"src": src, "args": args})
            ins, reps, L = work.inputs_for(r, rng, ast, nwalk=20 if quick else 50, enum_budget=40 if quick else 150)
            if len(ins) > (60 if quick else 200):
                ins = rng.sample(ins, 60 if quick else 200)
            p.meta["inputs"] = ins
            p.meta["reps"] = reps
            progs.append(p)
        if not progs:
            continue
        batch = cdrv.Batch(progs).build()
        runs = []
        for p in batch.live:
            for ii, bs in enumerate(p.meta["inputs"]):
                lines = ["START"]
                i = 0
                while i < len(bs):
                    k = min(len(bs) - i, rng.choice([1, 2, 3, 5, 9]))
                    lines.append("FEED " + cdrv.hexs(bs[i:i + k]))
                    i += k
                # after whatever happened: more calls
                junk = bytes(rng.choice(p.meta["reps"] or [97]) for _ in range(rng.randrange(1, 4)))
                lines += ["AFTER", "FEED " + cdrv.hexs(junk), "AFTER", "FEED " + cdrv.hexs(bs[:2] or b"a")]
                if p.zero_len:
                    lines += ["AFTER", "FEEDZ"]
                if p.eof:
                    lines += ["AFTER", "END", "AFTER", "FEED " + cdrv.hexs(bs[:3] or junk), "AFTER", "END"]
                runs.append(("%s.%d" % (p.name, ii), p, lines))
                if p.eof and len(bs) >= 2 and ii % 3 == 0:
                    # end() in the middle of an input that would have gone on: whatever it returns, a FAIL has to stay a FAIL when the rest is fed
                    j = rng.randrange(1, len(bs))
                    runs.append(("%s.%d.e" % (p.name, ii), p, ["START", "FEED " + cdrv.hexs(bs[:j]), "AFTER", "END", "AFTER", "FEED " + cdrv.hexs(bs[j:]), "AFTER", "END"]))
        res = batch.run(runs, timeout=1200, zero_heap=True)
        ctx.count("binaries")
        for rid, run_ in res.items():
            p = run_.prog
            ctx.evaluations += 1
            ctx.count("history_runs")
            failed = False
            for e in run_.events:
                if e[0] != "R" or e[1] == "S":
                    continue
                kind, code, off, base, n = e[1], e[3], e[4], e[8], e[9]
                ctx.count("calls_monitored")
                name = p.code_name(code)
                if failed:
                    ctx.count("calls_after_fail")
                    if name != "FAIL":
                        tag = ""
                        if failed == "by-end" and re.search(r"\bwait\b", p.meta["src"]):
                            tag = "[after-end-inside-wait]"
                        ctx.violation("c10:fail-not-absorbing:%s%s" % ("end" if kind == "E" else ("zero-length" if kind == "Z" else "feed"), tag),
                                      "after FAIL a later %s call returned %s" % ({"E": "end()", "Z": "zero-length feed()"}.get(kind, "feed()"), name),
                                      {"nmfu_source": p.meta["src"], "nmfu_args": p.meta["args"], "script": run_.script, "events": [str(x[:7]) for x in run_.events if x[0] == "R"]})
                        break
                if name == "FAIL":
                    if not failed:
                        ctx.nontrivial((p.meta["src"], tuple(run_.script)))
                        failed = "by-end" if kind == "E" else "by-feed"
                if name == "OK" and kind in ("F", "Z") and off >= 0 and off != base + n and not failed:
                    ctx.violation("c10:ok-before-chunk-end", "feed returned OK with the pointer at %d, the chunk [%d,%d) was not consumed" % (off, base, base + n),
                                  {"nmfu_source": p.meta["src"], "nmfu_args": p.meta["args"], "script": run_.script})
                    break
                if name == "FAIL" and kind == "F" and off >= 0 and not (base <= off <= base + n):
                    ctx.violation("c10:fail-pointer-outside-chunk", "FAIL leaves the pointer at %d outside the chunk [%d,%d]" % (off, base, base + n),
                                  {"nmfu_source": p.meta["src"], "nmfu_args": p.meta["args"], "script": run_.script})
                    break
        batch.cleanup()

    # ---- C: strict-done only postpones DONE ------------------------------------------------------------------------
    cases = []
    for ast, src, args, r in pool[: (30 if quick else 400)]:
        cases.append(diff.Case("gen", [("normal", src, args), ("strict", src, args + ["-fstrict-done-token-generation"])], ast=ast))
    diff.run_cases(ctx, cases, strict_compare, rng, quick, nwalk=25 if quick else 60, input_cap=80 if quick else 250)
    ctx.floor("runs_checked", 3000 if quick else 60000)
    ctx.floor("yield_events", 80)
    ctx.floor("calls_after_fail", 2000)
    ctx.floor("pairs_compared", 1500)
    ctx.rule = ("A: (program, input) fed byte-wise with pointer positions of FAIL / DONE / yields checked against the reference interpreter's "
                "consumed-byte count; B: (program, random chunking, then feeds / zero-length feeds / end() after whatever result) under the online "
                "protocol monitor; C: (program, input) on the normal and the strict-done build; non-trivial = an event or a FAIL occurred; "
                "distinct by (source, input or script)")
    ctx.assumptions += ["vf/ri.py for consumed-byte counts; DONE may leave the pointer on the last byte read or (when returned on the following call) past it"]


def replay(path):
    d = json.load(open(path))
    if "ast_pickle_hex" in d:
        return c01.replay(path)
    print(json.dumps({k: v for k, v in d.items() if k not in ("nmfu_source",)}, indent=1)[:2500])
    print(d.get("nmfu_source", ""))
    return 0
