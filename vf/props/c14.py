"""C14 - math expressions evaluate as C arithmetic over the parser's variables.

SUT: emitted C. Each parser holds several statements (assignment to int / bool targets, character append, action-only if)
whose expressions are random well-typed trees printed with minimal parentheses; variable values are written into the state
struct, one byte is fed, the stored results are read back. Oracle: vf/carith.py (explicit C typing, UB classified and skipped).
"""
import json

from .. import carith, cdrv, gen, nm, work
from ..common import Ctx

LEVEL = "exploration"
N = gen.N

VARS = [("a1", 1, True), ("u1", 1, False), ("a2", 2, True), ("u2", 2, False), ("a4", 4, True), ("u4", 4, False), ("a8", 8, True), ("u8", 8, False),
        ("d4", None, None)]
ARITH = ["+", "-", "*", "/", "%", "&", "|", "^", "<<", ">>"]
CMP = ["==", "!=", "<", ">", "<=", ">="]


class EGen:
    def __init__(self, rng):
        self.rng = rng

    def num(self):
        rng = self.rng
        v = rng.choice([0, 1, 2, 3, 5, 7, 8, 10, 31, 32, 48, 100, 127, 128, 255, 256, 1000, 65535, 65536, 0x7fffffff, 0x80000000, 0xffffffff,
                        rng.randrange(0, 1 << 16), rng.randrange(0, 1 << 40)])
        style = rng.random()
        if style < 0.5:
            t = str(v)
        elif style < 0.8:
            t = hex(v)
        else:
            t = bin(v)
        if rng.random() < 0.12 and style < 0.8:
            return N("num", v=-v, text="-" + t)
        return N("num", v=v, text=t)

    def int_atom(self):
        rng = self.rng
        r = rng.random()
        if r < 0.3:
            return self.num()
        if r < 0.37:
            c = rng.choice("aZ09 ~")
            return N("chr", v=ord(c), text="'%s'" % c)
        if r < 0.75:
            return N("var", name=rng.choice(VARS)[0])
        if r < 0.82:
            return N("len", name=rng.choice(["s0", "r0", "us"]))
        if r < 0.845:
            # index bait: differences of operands narrower than int (promoted to int in C, so they go negative, not huge), indices around the
            # length and the capacity, the last byte as a table index
            nm_ = rng.choice(["s0", "r0", "us"])
            small = lambda: rng.choice([N("var", name=rng.choice(["u1", "u2", "a1", "a2"])), N("len", name=rng.choice(["s0", "us", "r0"])), N("last"),
                                        N("idx", name="us", e=N("num", v=0, text="0"))])
            k = rng.choice([1, 1, 2, 3, 4, 8, 48, 255, 256])
            e = rng.choice([N("bin", op="-", a=small(), b=N("num", v=k, text=str(k))), N("bin", op="-", a=small(), b=small()),
                            N("bin", op="-", a=N("len", name=nm_), b=N("num", v=1, text="1")), N("len", name=nm_),
                            N("bin", op="+", a=small(), b=N("num", v=k, text=str(k)))])
            return N("idx", name=nm_, e=e)
        if r < 0.93:
            return N("idx", name=rng.choice(["s0", "r0", "us"]), e=self.int_expr(1) if rng.random() < 0.4 else
                     N("num", v=(iv := rng.choice([0, 1, 2, 3, 5, 6, 7, 100])), text=str(iv)))
        return N("last")

    def int_expr(self, depth):
        rng = self.rng
        if depth <= 0 or rng.random() < 0.25:
            return self.int_atom()
        r = rng.random()
        if r < 0.08:
            return N("neg", a=self.int_expr(depth - 1))
        op = rng.choice(ARITH + ["+", "-", "&", "|", "^", "+", "-", "&", "|", "+", "-"])
        a = self.int_expr(depth - 1)
        if op in ("<<", ">>"):
            b = N("num", v=(k := rng.choice([0, 1, 2, 3, 4, 7, 8, 15, 16, 24, 31])), text=str(k)) if rng.random() < 0.85 else self.int_expr(depth - 1)
        elif op in ("/", "%"):
            b = N("num", v=(k := rng.choice([1, 2, 3, 7, 10, 16, 255, 256])), text=str(k)) if rng.random() < 0.7 else self.int_expr(depth - 1)
        elif op == "*" and rng.random() < 0.7:
            b = N("num", v=(k := rng.choice([0, 1, 2, 3, 10, 256])), text=str(k))
        else:
            b = self.int_expr(depth - 1)
        return N("bin", op=op, a=a, b=b)

    def bool_expr(self, depth, cmp_ok=True):
        rng = self.rng
        r = rng.random()
        if depth <= 0 or r < 0.45:
            q = rng.random()
            if q < 0.75 and cmp_ok:
                return N("bin", op=rng.choice(CMP), a=self.int_expr(max(0, depth - 1)), b=self.int_expr(max(0, depth - 1)))
            if q < 0.85:
                return N("var", name=rng.choice(["b0", "b1"]))
            if q < 0.9:
                return N("bool", v=rng.random() < 0.5)
            return N("not", a=self.int_expr(max(0, depth - 1)) if (rng.random() < 0.5 and cmp_ok) else N("var", name=rng.choice(["b0", "b1"])))
        if r < 0.55:
            return N("not", a=self.bool_expr(depth - 1, cmp_ok))
        if r < 0.65:
            return N("bin", op=rng.choice(["==", "!="]), a=self.bool_expr(depth - 1, cmp_ok), b=self.bool_expr(depth - 1, cmp_ok))
        return N("bin", op=rng.choice(["&&", "||"]), a=self.bool_expr(depth - 1, cmp_ok), b=self.bool_expr(depth - 1, cmp_ok))


def decls(targets):
    out = []
    for name, w, sg in VARS:
        out.append(N("out", name=name, typ="int", signed=sg, width=w, default=None))
    out += [N("out", name="b0", typ="bool", default=None), N("out", name="b1", typ="bool", default=None),
            N("out", name="s0", typ="str", size=8, default=None), N("out", name="us", typ="ustr", size=4, default=None),
            N("out", name="r0", typ="raw", raw_type="uint32_t", default=None), N("out", name="st", typ="ustr", size=8, default=None)]
    out[-2].raw_size = 4
    return out + targets


def value_vector(rng):
    vals = {}
    for name, w, sg in VARS:
        bits = (w or 4) * 8
        sgn = True if sg is None else sg
        lo, hi = (-(1 << (bits - 1)), (1 << (bits - 1)) - 1) if sgn else (0, (1 << bits) - 1)
        r = rng.random()
        if r < 0.5:
            v = rng.choice([0, 1, 2, 3, 5, 7, 10, 100])
        elif r < 0.62:
            v = rng.choice([lo, hi, lo + 1, hi - 1, -1 if sgn else hi, 0])
        else:
            v = rng.randrange(lo, hi + 1) if rng.random() < 0.5 else rng.randrange(max(lo, -300), min(hi, 300) + 1)
        vals[name] = v
    vals["b0"] = rng.random() < 0.5
    vals["b1"] = rng.random() < 0.5
    vals["s0"] = bytes(rng.choice([0x61, 0x30, 0x7f, 0x80, 0xe9, 0xff, 0x00, 0x41]) for _ in range(rng.randrange(0, 8)))
    vals["us"] = bytes(rng.choice([0x61, 0x80, 0xff, 0x01]) for _ in range(rng.randrange(0, 5)))
    vals["r0"] = bytes(rng.randrange(256) for _ in range(rng.randrange(0, 5)))
    return vals


def run(ctx: Ctx):
    rng = ctx.rng
    quick = ctx.quick
    nparsers = 110 if quick else 1500
    per = 6
    nvec = 10 if quick else 16
    eg = EGen(rng)
    plans = []
    for pi in range(nparsers):
        stmts = [N("match", p=N("lit", bs=b"k", form="s"))]
        targets = []
        exps = []    # (kind, target name, target ctype, expr)
        for j in range(per):
            r = rng.random()
            depth = rng.choice([1, 2, 2, 3, 4])
            if r < 0.6:
                name, w, sg = "t%d" % j, rng.choice([1, 2, 4, 8, None]), rng.choice([True, False, None])
                targets.append(N("out", name=name, typ="int", signed=sg, width=w, default=None))
                e = eg.int_expr(depth)
                stmts.append(N("assign", var=name, e=e, force_math=True))
                exps.append(("int", name, ((w or 4) * 8, True if sg is None else sg), e))
            elif r < 0.75:
                name = "t%d" % j
                targets.append(N("out", name=name, typ="bool", default=None))
                e = eg.bool_expr(depth, cmp_ok=False)     # nmfu only accepts bool-typed operands when the target is a bool
                stmts.append(N("assign", var=name, e=e, force_math=True))
                exps.append(("bool", name, (1, False), e))
            elif r < 0.85 and not any(x[0] == "app" for x in exps):
                e = eg.int_expr(depth)
                stmts.append(N("appendc", var="st", e=e))
                exps.append(("app", "st", carith.U8, e))
            else:
                name = "t%d" % j
                targets.append(N("out", name=name, typ="int", signed=True, width=4, default=None))
                e = eg.bool_expr(depth) if rng.random() < 0.7 else eg.int_expr(depth)
                stmts.append(N("if", branches=[(e, [N("assign", var=name, e=N("num", v=1, text="1"))])], orelse=[N("assign", var=name, e=N("num", v=2, text="2"))]))
                exps.append(("cond", name, carith.INT, e))
        stmts.append(N("match", p=N("lit", bs=b"z", form="s")))
        outs = decls(targets)
        prog = N("prog", outs=outs, hooks=[], fcodes=[], ycodes=[], macros=[], body=stmts, args=[])
        args = [rng.choice(["-O0", "-O1", "-O2", "-O3"])] + rng.choice([[], [], ["-fstrings-as-u8"], ["-fallocate-str-space-dynamic"]])
        plans.append((prog, gen.prog_src(prog), args, exps))

    for chunk in work.chunked(plans, 30):
        progs = []
        for i, (prog, src, args, exps) in enumerate(chunk):
            r = nm.compile_source(src, args, name="p%d" % i)
            if not r.ok:
                ctx.count("programs_rejected")
                if len(ctx.extra.setdefault("rejected_examples", [])) < 5:
                    ctx.extra["rejected_examples"].append({"why": (r.exc_type, (r.exc_msg or "")[:200]), "src": src[-400:]})
                continue
            progs.append(cdrv.Prog(r, meta={"src": src, "args": args, "exps": exps, "prog": prog}))
        if not progs:
            continue
        batch = cdrv.Batch(progs).build()
        for p, err in batch.failed:
            ctx.violation("c14:emitted-c-does-not-compile", "expression program does not compile: %s" % (err.splitlines()[0][:200] if err else "?"),
                          {"nmfu_source": p.meta["src"], "nmfu_args": p.meta["args"], "stderr": err})
        runs = []
        plan = {}
        for p in batch.live:
            for vi in range(nvec):
                vals = value_vector(rng)
                lines = ["START"]
                for name, v in vals.items():
                    if isinstance(v, bytes):
                        lines.append("SETSTR %s %s" % (name, cdrv.hexs(v)))
                    else:
                        lines.append("SET %s %d" % (name, int(v)))
                lines += ["FEED 6b", "SNAP", "FREE"]
                rid = "%s.%d" % (p.name, vi)
                runs.append((rid, p, lines))
                plan[rid] = (p, vals)
        res = batch.run(runs, zero_heap=True)
        ctx.count("binaries")
        for rid, (p, vals) in plan.items():
            run_ = res.get(rid)
            if run_ is None:
                continue
            prog = p.meta["prog"]
            env = carith.Env(prog.outs, vals, last=0x6b, u8_strings=p.u8)
            for o in prog.outs:
                if o.typ in ("str", "ustr"):
                    env.full[o.name] = (vals.get(o.name, b"") + bytes(o.size))[:o.size]
                elif o.typ == "raw":
                    env.full[o.name] = (vals.get(o.name, b"") + bytes(4))[:4]
            expect = []
            any_ub = False
            for kind, name, tt, e in p.meta["exps"]:
                try:
                    t, v = carith.ev(e, env)
                    if kind == "cond":
                        expect.append((kind, name, 1 if carith.truthy(t, v) else 2, e))
                    elif kind == "app":
                        expect.append((kind, name, carith.wrap(v, carith.U8), e))
                    else:
                        expect.append((kind, name, carith.store(tt, t, v), e))
                except carith.UB as u:
                    any_ub = True
                    expect.append((kind, name, None, e))
            ctx.count("runs")
            ctx.evaluations += len(expect)       # a case = one (expression, context, variable valuation)
            if run_.abort:
                if any_ub:
                    ctx.count("runs_with_user_ub_aborted")
                    continue
                ctx.violation("c14:sanitizer-without-ub", "UBSan/ASan report although every expression is defined C: %s" % (run_.abort,),
                              {"nmfu_source": p.meta["src"], "nmfu_args": p.meta["args"], "values": {k: (v.hex() if isinstance(v, bytes) else int(v)) for k, v in vals.items()}, "stderr": run_.stderr})
                continue
            snap = next((cdrv.parse_snap(e[1]) for e in run_.events if e[0] == "N"), None)
            if snap is None:
                ctx.count("runs_missing_snapshot")
                continue
            for kind, name, want, e in expect:
                if want is None:
                    ctx.count("expressions_ub_skipped")
                    continue
                if kind == "app":
                    got = snap["st"][1][0] if snap["st"][0] >= 1 else None
                else:
                    got = snap[name]
                ctx.count("expressions_checked")
                ctx.count("context_" + kind)
                ctx.nontrivial((gen.expr_src(e), kind, tuple(sorted((k, (v.hex() if isinstance(v, bytes) else int(v))) for k, v in vals.items()))))
                if got != want:
                    ops = sorted(set(opnames(e)))
                    ctx.violation("c14:value-differs:%s:%s" % (kind, "+".join(ops)[:40]),
                                  "expression %s stored %r, C arithmetic gives %r" % (gen.expr_src(e), got, want),
                                  {"nmfu_source": p.meta["src"], "nmfu_args": p.meta["args"], "expression": gen.expr_src(e), "context": kind, "target": name,
                                   "values": {k: (v.hex() if isinstance(v, bytes) else int(v)) for k, v in vals.items()}, "observed": got, "expected": want})
        if len(ctx.samples) < 4 and batch.live:
            p = batch.live[0]
            ctx.sample({"expressions": [gen.expr_src(x[3]) for x in p.meta["exps"][:4]], "args": p.meta["args"]})
        batch.cleanup()
    ctx.floor("expressions_checked", 3000 if quick else 60000)
    ctx.floor("context_bool", 300)
    ctx.floor("context_cond", 300)
    ctx.floor("context_app", 100)
    ctx.rule = ("case = (expression tree, statement context, vector of variable values); trees over || && | ^ & == != < > <= >= << >> + - * / % "
                "! unary-, literals in three radices, char constants, variables of every width/sign, .len, s[i] (in and out of range), $last; "
                "printed with the minimal parentheses the grammar allows; non-trivial = defined C (UB cases skipped and counted); distinct by "
                "(expression, context, values)")
    ctx.assumptions += ["LP64 gcc/clang typing (int 32, long 64, char signed); conversion to signed targets wraps", "vf/carith.py is the arithmetic definition"]


def opnames(e):
    if e.kind == "bin":
        return [e.op] + opnames(e.a) + opnames(e.b)
    if e.kind in ("not", "neg"):
        return [e.kind] + opnames(e.a)
    if e.kind == "idx":
        return ["idx"] + opnames(e.e)
    return []


def replay(path):
    d = json.load(open(path))
    print(json.dumps({k: v for k, v in d.items() if k not in ("nmfu_source",)}, indent=1)[:2500])
    return 0
