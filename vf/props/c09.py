"""C09 - acceptance implies one-byte-lookahead unambiguity.

SUT: the real compiler's verdict on deliberately overlapping clause sets and statement pairs `A; B`, then the emitted C on
the witness. Oracle: an exact language-theoretic test on independently built derivative automata (clause languages
pairwise disjoint and no clause complete while another can continue; greedy ties have a unique highest priority; no byte
both continues an open-ended A and starts B). A program that nmfu accepts although the oracle finds a witness is a
violation; the witness is then executed on the emitted C to show which continuation the machine silently took.
Over-rejection (nmfu rejecting an unambiguous program) is counted, not flagged.
"""
import json

from .. import cdrv, gen, nm, ri, rx, trace, work
from ..common import Ctx
from . import c08

LEVEL = "exploration"
N = gen.N
ALPHA = [ord(c) for c in "abc01"]


def clause_ambiguity(patterns, greedy, cap=4000):
    """patterns: [(clause index, sem, prio)]. -> None | (kind, witness bytes)"""
    sets = set()
    for _, sem, _ in patterns:
        sets |= rx.sets_in(sem)
    reps = sorted(min(p) for p in rx.partition(sets))
    start = tuple(sem for _, sem, _ in patterns)
    seen = {start: b""}
    todo = [start]
    while todo and len(seen) < cap:
        J = todo.pop(0)
        w = seen[J]
        if w:
            fin = [i for i, q in enumerate(J) if q != rx.EMPTY and rx.nullable(q)]
            live = [i for i, q in enumerate(J) if q != rx.EMPTY]
            if greedy:
                if fin:
                    best = max(patterns[i][2] for i in fin)
                    top = {patterns[i][0] for i in fin if patterns[i][2] == best}
                    if len(top) > 1:
                        return ("greedy-tie", w)
            else:
                for i in fin:
                    for j in live:
                        if j == i:
                            continue
                        if patterns[j][0] != patterns[i][0]:
                            return ("two-clauses-match" if j in fin else "finish-or-continue", w)
                        if j not in fin or not rx.only_eps(J[j]):
                            # same clause: still a consumption ambiguity when the other pattern can go on
                            if not (j in fin and rx.only_eps(J[j])):
                                return ("finish-or-continue-same-clause", w)
        for c in reps:
            K = tuple(rx.deriv(q, c) if q != rx.EMPTY else rx.EMPTY for q in J)
            if any(q != rx.EMPTY for q in K) and K not in seen:
                seen[K] = w + bytes([c])
                todo.append(K)
    return None


def overlapping_case(rng, greedy):
    g = gen.Gen(rng)
    ncl = rng.randrange(2, 5)
    clauses = []
    fcodes = ["F%d" % i for i in range(ncl + 1)]
    ycodes = ["Y%d" % i for i in range(ncl + 1)] if greedy else []
    flat = []
    for i in range(ncl):
        preds = []
        for _ in range(rng.choice([1, 1, 2])):
            p = c08.pattern(rng, g, set())       # no first-byte avoidance: overlaps are the point
            preds.append(p)
        prio = rng.choice([None, 0, 1, 1, 2]) if greedy else None
        for p in preds:
            flat.append((i, gen.pat_sem(p), prio or 0))
        open_ = any(gen.is_open(gen.pat_sem(p)) for p in preds)
        if greedy:
            body = [N("yield", code=ycodes[i])]
        else:
            body = [N("match", p=N("lit", bs=b";", form="s")), N("finish", code=fcodes[i])] if (open_ or rng.random() < 0.5) else [N("finish", code=fcodes[i])]
        clauses.append(N("clause", preds=preds, body=body, prio=prio))
    case = N("case", clauses=clauses, greedy=greedy)
    body = [N("loop", label=None, body=[case])] if greedy else [case, N("match", p=N("lit", bs=b"#", form="s"))]
    prog = N("prog", outs=[], hooks=[], fcodes=fcodes, ycodes=ycodes, macros=[], body=body, args=["-fyield-support"] if greedy else [])
    return prog, flat


def pair_program(rng):
    """`A; B` with A ending by lookahead. returns (prog, ambiguous_bytes, shape)"""
    g = gen.Gen(rng)

    def openrx():
        for _ in range(20):
            t = rx.gen(rng, ALPHA, depth=rng.choice([1, 2]), classes=False)
            sem = rx.to_sem(t)
            if sem not in (rx.EMPTY, rx.EPS) and not rx.nullable(sem) and gen.is_open(sem):
                return N("rx", tree=t, binary=False), sem
        t = ("op", ("ch", ALPHA[0]), "+")
        return N("rx", tree=t, binary=False), rx.to_sem(t)

    def anypat():
        p = c08.pattern(rng, g, set())
        return p, gen.pat_sem(p)
    shape = rng.choice(["regex", "optional", "optional2", "foreach", "try", "if", "clause"])
    outs = [N("out", name="i0", typ="int", signed=None, width=None, default=0), N("out", name="s0", typ="str", size=4, default=None)]
    if shape == "regex":
        p, sem = openrx()
        A = [N("match", p=p)]
        tail = gen.tail_open(sem)
    elif shape == "optional":
        p, sem = anypat()
        A = [N("optional", body=[N("match", p=p)])]
        tail = (set(rx.first(sem)) - {rx.END}) | gen.tail_open(sem)
    elif shape == "optional2":
        p, sem = anypat()
        p2, sem2 = anypat()
        if gen.tail_open(sem) & (set(rx.first(sem2)) - {rx.END}):
            return None
        A = [N("optional", body=[N("match", p=p), N("match", p=p2)])]
        tail = (set(rx.first(sem)) - {rx.END}) | gen.tail_open(sem2)
    elif shape == "foreach":
        p, sem = openrx()
        A = [N("foreach", body=[N("match", p=p)], do=[N("assign", var="i0", e=N("num", v=1, text="1"))])]
        tail = gen.tail_open(sem)
    elif shape == "try":
        p, sem = openrx()
        A = [N("try", body=[N("appendm", var="s0", p=p)], reasons=["outofspace"], handler=[])]
        tail = gen.tail_open(sem)
    elif shape == "if":
        p, sem = openrx()
        A = [N("if", branches=[(N("bin", op="==", a=N("var", name="i0"), b=N("num", v=0, text="0")), [N("match", p=p)])], orelse=None)]
        tail = gen.tail_open(sem)
    else:
        p, sem = openrx()
        lead = N("lit", bs=bytes([rng.choice(ALPHA)]), form="s")
        A = [N("case", greedy=False, clauses=[N("clause", preds=[lead], body=[N("match", p=p)], prio=None),
                                               N("clause", preds=[N("lit", bs=b"~", form="s")], body=[], prio=None)])]
        tail = gen.tail_open(sem)
    def bpat():
        # what follows may start with an inverted class / wildcard: those reach the join through Else transitions
        if rng.random() < 0.45:
            items = [("ch", rng.choice(ALPHA)) for _ in range(rng.randrange(1, 3))]
            t = rng.choice([("set", items, True), ("set", items, True), ("any",), ("seq", [("set", items, True), ("ch", rng.choice(ALPHA))])])
            return N("rx", tree=t, binary=False), rx.to_sem(t)
        return anypat()
    kindb = rng.choice(["match", "if-else", "if-else", "if", "if", "optional", "case"])
    firsts = set()
    if kindb == "match":
        pb, semb = bpat()
        B = [N("match", p=pb)]
        firsts = set(rx.first(semb))
    elif kindb == "if-else":
        p1, s1 = bpat()
        p2, s2 = bpat()
        B = [N("if", branches=[(N("bin", op="==", a=N("var", name="i0"), b=N("num", v=1, text="1")), [N("match", p=p1)])], orelse=[N("match", p=p2)])]
        firsts = set(rx.first(s1)) | set(rx.first(s2))
    elif kindb == "if":
        p1, s1 = bpat()
        p2, s2 = bpat()
        if gen.tail_open(s1) & (set(rx.first(s2)) - {rx.END}):
            return None
        B = [N("if", branches=[(N("bin", op="==", a=N("var", name="i0"), b=N("num", v=1, text="1")), [N("match", p=p1)])], orelse=None), N("match", p=p2)]
        firsts = set(rx.first(s1)) | set(rx.first(s2))
    elif kindb == "optional":
        p1, s1 = bpat()
        p2, s2 = bpat()
        if ((set(rx.first(s1)) | gen.tail_open(s1)) & (set(rx.first(s2)) - {rx.END})):
            return None
        B = [N("optional", body=[N("match", p=p1)]), N("match", p=p2)]
        firsts = set(rx.first(s1)) | set(rx.first(s2))
    else:
        p1, s1 = bpat()
        p2, s2 = bpat()
        if clause_ambiguity([(0, s1, 0), (1, s2, 0)], False) is not None:
            return None
        B = [N("case", greedy=False, clauses=[N("clause", preds=[p1], body=[], prio=None), N("clause", preds=[p2], body=[], prio=None)])]
        firsts = set(rx.first(s1)) | set(rx.first(s2))
    shape = shape + "+" + kindb
    amb = tail & (firsts - {rx.END})
    prog = N("prog", outs=outs, hooks=[], fcodes=[], ycodes=[], macros=[], body=A + B + [N("match", p=N("lit", bs=b"#", form="s"))], args=[])
    return prog, amb, shape


def run_witness(src, args, ws):
    r = nm.compile_source(src, args + ["-findirect-start-ptr"], name="p0")
    if not r.ok:
        return None
    p = cdrv.Prog(r)
    b = cdrv.Batch([p]).build()
    res = b.run([(w.hex() or "e", p, ["START", "FEED1 " + cdrv.hexs(w), "SNAP"]) for w in ws])
    out = {k: trace.describe(trace.normal_form(v, p), p, 10) for k, v in res.items()}
    b.cleanup()
    return out


def run(ctx: Ctx):
    rng = ctx.rng
    quick = ctx.quick
    n_case = 250 if quick else 4000
    n_pair = 500 if quick else 5000
    verdicts = {"ambiguous_rejected": 0, "unambiguous_accepted": 0, "unambiguous_rejected(over-rejection)": 0, "ambiguous_accepted": 0}
    accepted_unamb = []
    for i in range(n_case):
        greedy = rng.random() < 0.4
        prog, flat = overlapping_case(rng, greedy)
        src = gen.prog_src(prog)
        args = prog.args + [rng.choice(["-O0", "-O1", "-O3"])]
        amb = clause_ambiguity(flat, greedy)
        r = nm.compile_source(src, args, name="p0", keep=False)
        ctx.evaluations += 1
        if r.status == "internal":
            ctx.count("internal_errors_seen")        # C18's business
            continue
        acc = r.ok
        ctx.nontrivial(("case", src))
        ctx.count("clause_sets")
        ctx.count("clause_sets_greedy" if greedy else "clause_sets_plain")
        key = ("ambiguous" if amb else "unambiguous") + ("_accepted" if acc else "_rejected" + ("" if amb else "(over-rejection)"))
        verdicts[key] += 1
        if amb and acc:
            kind, w = amb
            shown = run_witness(src, args, [w, w + b";", w + bytes([ALPHA[0]])])
            ctx.violation("c09:accepted-ambiguous-case:%s%s" % (kind, ":greedy" if greedy else ""),
                          "accepted although the input %r reaches a point where %s" % (w, kind),
                          {"nmfu_source": src, "nmfu_args": args, "witness_hex": w.hex(), "witness": w.decode("latin-1"), "what_the_machine_did": shown})
        elif acc and len(accepted_unamb) < (30 if quick else 300):
            accepted_unamb.append((prog, src, args))
        if i < 2:
            ctx.sample({"clause_set": src[src.index("parser"):][:400], "oracle": str(amb), "nmfu_accepts": acc})
    shapes = {}
    for i in range(n_pair):
        pp = pair_program(rng)
        if pp is None:
            continue
        prog, amb, shape = pp
        src = gen.prog_src(prog)
        args = [rng.choice(["-O0", "-O1", "-O3"])]
        r = nm.compile_source(src, args, name="p0", keep=False)
        ctx.evaluations += 1
        if r.status == "internal":
            ctx.count("internal_errors_seen")
            continue
        acc = r.ok
        ctx.nontrivial(("pair", src))
        ctx.count("statement_pairs")
        shapes[shape] = shapes.get(shape, 0) + 1
        key = ("ambiguous" if amb else "unambiguous") + ("_accepted" if acc else "_rejected" + ("" if amb else "(over-rejection)"))
        verdicts[key] += 1
        if amb and acc:
            c = min(amb)
            ctx.violation("c09:accepted-ambiguous-join:%s" % shape,
                          "accepted although byte %r both continues the %s and starts the next statement" % (chr(c), shape),
                          {"nmfu_source": src, "nmfu_args": args, "ambiguous_bytes": sorted(amb)})
    ctx.extra["verdict_matrix"] = verdicts
    ctx.extra["pair_shapes"] = shapes
    # cross-check at run time: the reference interpreter's ambiguity recorder on accepted clause sets
    hits = [0]

    def on_case(p, bs, items):
        pass
    from . import c01
    pool = [(prog, src, args + ([] if "-fyield-support" in args else ["-findirect-start-ptr"]), None) for prog, src, args in accepted_unamb]
    stats = ctx.extra.setdefault("oracle_slack_counters", {})
    orig_check = ri.check

    def recording_check(ast, inp, items, prog_c, stats_, **kw):
        try:
            r = ri.RI(ast, inp).run()
            if r.ambiguities:
                hits[0] += 1
                ctx.violation("c09:ambiguity-witnessed-at-run-time:%s" % r.ambiguities[0][0], "on input %r the reading had two continuations: %s" % (inp, r.ambiguities[0]),
                              {"nmfu_source": gen.prog_src(ast), "input_hex": bytes(inp).hex()})
        except Exception:
            pass
        return orig_check(ast, inp, items, prog_c, stats_, **kw)
    ri.check = recording_check
    try:
        c01.run_pool(ctx, rng, quick, pool, "c09:behaviour", nwalk=15, enum_budget=150 if quick else 600, cap=150 if quick else 500, pointers=False)
    finally:
        ri.check = orig_check
    ctx.cov["ambiguous_rejected"] = verdicts["ambiguous_rejected"]
    ctx.cov["unambiguous_accepted"] = verdicts["unambiguous_accepted"]
    ctx.floor("clause_sets", 200)
    ctx.floor("statement_pairs", 150)
    ctx.floor("ambiguous_rejected", 60)
    ctx.floor("unambiguous_accepted", 40)
    ctx.rule = ("case = a generated clause set (2-4 clauses, overlapping on purpose, plain and greedy with priorities) or a statement pair `A; B` "
                "with A in {open regex, optional, two-statement optional, foreach, try, if, case clause}: exact ambiguity by product search over "
                "derivative automata vs the compiler's accept/reject verdict; accepted unambiguous clause sets are also executed with the "
                "reference interpreter's ambiguity recorder on; every case is non-trivial; distinct by source")
    ctx.assumptions += ["ambiguity = two continuations that both make positive progress on the same byte (else clauses, wait's skipping and error handlers excluded)"]


def replay(path):
    d = json.load(open(path))
    print(json.dumps(d, indent=1)[:3000])
    r = nm.compile_source(d["nmfu_source"], d.get("nmfu_args", []), name="p0", keep=False)
    print("verdict now:", r.status, r.exc_type)
    return 1 if r.ok else 0
