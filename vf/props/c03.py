"""C03 - generated parsers are memory-safe and respect output capacities.

SUT: emitted C built with ASan+UBSan (+LSan leak checks) in every string-storage mode, under a driver that poisons the
state before start(), gives every chunk an exact-size heap block, relocates the state between calls and checks the
string invariants after start() and after every call. Plus the set-string contract on the real code generator.
"""
import json
import re

from .. import cdrv, contracts, gen, nm, trace, work
from ..common import Ctx

LEVEL = "exploration"

STORAGE = [[], ["-fallocate-str-space-dynamic"], ["-fallocate-str-space-dynamic-on-demand"],
           ["-fallocate-str-space-dynamic-on-demand", "-fdelete-string-free-memory"],
           ["-fallocate-str-space-dynamic", "-fdelete-string-free-memory"]]

PROFILE = {
    "w": {"match": 20, "appendm": 22, "appendc": 10, "assignstr": 10, "delete": 8, "try_": 12, "hook": 4, "assign": 6,
          "loop": 6, "case": 6, "optional": 5, "foreach": 4, "if_": 6, "wait": 2, "finish": 2},
    "str_defaults": 0.45, "assign_high_bytes": 0.12, "big_caps": 0.06, "str_caps": (1, 2, 2, 3, 4, 6), "high_bytes": 0.08,
}

USER_UB = ("signed integer overflow", "left shift of", "shift exponent", "division by zero", "negation of", "right shift of")


def has_idx(ast):
    found = []

    def e(x):
        if isinstance(x, gen.N):
            if x.kind == "idx":
                found.append(1)
            for a in ("a", "b", "e"):
                if isinstance(getattr(x, a, None), gen.N):
                    e(getattr(x, a))

    def fn(s):
        if s.kind in ("assign", "appendc"):
            e(s.e)
        elif s.kind == "if":
            for c, _ in s.branches:
                e(c)
    gen.walk(ast.body, fn)
    return bool(found)


def mode_rows(rng, ast, k):
    rows = []
    for st in STORAGE:
        for u8 in ([], ["-fstrings-as-u8"]):
            for unsafe in ([], ["-funsafe-string-indexing"]):
                if unsafe and ast is not None and has_idx(ast):
                    continue
                rows.append(st + u8 + unsafe)
    if k >= len(rows):
        return rows
    # always include the in-struct default and on-demand+free (the mode with most branches), sample the rest
    must = [[], STORAGE[3]]
    rest = [r for r in rows if r not in must]
    return must + rng.sample(rest, max(0, k - len(must)))


def scripts(rng, p, bs, leak):
    """hostile call history for one input"""
    lines = ["QUIETOK 1", "POISON %d" % rng.choice([0xAA, 0xFF, 0x01]), "START"]
    # random chunking
    i = 0
    n = len(bs)
    while i < n:
        k = min(n - i, rng.choice([1, 1, 2, 3, 7, 50]))
        lines.append("FEED " + cdrv.hexs(bs[i:i + k]))
        i += k
    lines.append("SNAP")
    r = rng.random()
    if r < 0.3:
        # calls after a terminal result / more input
        lines.append("AFTER")
        lines.append("FEED " + cdrv.hexs(bytes(rng.choice(bs or b"a") for _ in range(rng.randrange(1, 4)))))
        lines.append("AFTER")
        lines.append("FEED1 " + cdrv.hexs(bs[:3] or b"a"))
    if p.eof and rng.random() < 0.6:
        lines.append("AFTER")
        lines.append("END")
    lines.append("FREE 2" if rng.random() < 0.3 else "FREE")
    if rng.random() < 0.25:
        lines += ["POISON 170", "START", "FEED " + cdrv.hexs(bs[:4] or b"a"), "FREE"]
    if leak:
        lines.append("LEAKCHECK")
    return lines


def classify_abort(run, p):
    kind, summary = run.abort
    fn = "?"
    m = re.search(r"in (p\d+)_(\w+)", run.stderr or "")
    if m:
        fn = m.group(2)
    mode = []
    if p.on_demand:
        mode.append("on-demand")
    elif p.dyn_str:
        mode.append("dynamic")
    if "-fdelete-string-free-memory" in p.meta["args"]:
        mode.append("delete-frees")
    return "%s:%s:%s" % (kind, fn, "+".join(mode) or "in-struct")


IDX_BODY = """parser {
  s += /[a-z]*/;
  /[;,]/;
  n = [s.len]; m = [s.len];
  ra = [s[s.len - 1]];
  rb = [s[n - 1]];
  rc = [s[m - 2]];
  rd = [s[$last - 44]];
  re = [s[s.len + %d]];
  rf = [s[n - m - 1]];
  "\\n";
}
"""


def index_family(ctx, rng, quick):
    """computed string indices that leave the buffer on either side: differences of operands narrower than int (negative after
    integer promotion), the length itself, the last byte as a table index. Non-zero neighbours on both sides of the string make a
    stray read visible as a value (in-struct) where ASan is blind; the heap modes make it visible to ASan."""
    entries = []
    for cap in (2, 4, 8):
        for order in range(3):
            g0 = 'out unterminated str[4] g0 = "wxyz";\n'
            g1 = 'out unterminated str[4] g1 = "WXYZ";\n'
            sd = "out str[%d] s;\n" % cap
            decl = [g0 + sd + g1, sd + g0 + g1, g0 + g1 + sd][order]
            decl += "out int{unsigned, size 1} n;\nout int{unsigned, size 2} m;\nout int ra;\nout int rb;\nout int rc;\nout int rd;\nout int re;\nout int rf;\n"
            src = decl + IDX_BODY % cap
            rows = [r + u for r in STORAGE for u in ([], ["-fstrings-as-u8"])]
            for row in (rng.sample(rows, 4) if quick else rows):
                entries.append((src, [rng.choice(["-O0", "-O1", "-O2", "-O3"])] + row, cap))
    for chunk in work.chunked(entries, 30):
        progs = []
        for i, (src, args, cap) in enumerate(chunk):
            r = nm.compile_source(src, args, name="p%d" % i)
            if not r.ok:
                ctx.violation("c03:index-family-rejected", "index family program not accepted: %s" % (r.exc_msg,), {"nmfu_source": src, "nmfu_args": args})
                continue
            progs.append(cdrv.Prog(r, meta={"src": src, "args": args, "label": "index-family", "cap": cap}))
        if not progs:
            continue
        batch = cdrv.Batch(progs).build()
        runs = []
        for p in batch.live:
            cap = p.meta["cap"]
            p.meta["inputs"] = []
            for L in sorted({0, 1, 2, cap - 1, cap}):
                for sep in b";,":
                    w = bytes(rng.choice(b"abcdefghijklmnopqrstuvwxyz") for _ in range(L))
                    bs = w + bytes([sep]) + b"\n"
                    p.meta["inputs"].append((w, sep, bs))
                    ii = len(p.meta["inputs"]) - 1
                    feeds = ["FEED " + cdrv.hexs(bs)] if rng.random() < 0.5 else ["FEED " + cdrv.hexs(bs[k:k + 1]) for k in range(len(bs))]
                    runs.append(("%s.%d" % (p.name, ii), p, ["QUIETOK 1", "POISON %d" % rng.choice([0xAA, 0xFF, 0x01]), "START"] + feeds + ["SNAP", "FREE"]))
        res = batch.run(runs, timeout=900)
        ctx.count("binaries")
        for rid, run in res.items():
            p = run.prog
            w, sep, bs = p.meta["inputs"][int(rid.split(".")[1])]
            cap = p.meta["cap"]
            ctx.evaluations += 1
            ctx.count("runs")
            ctx.count("index_family_runs")
            base = {"nmfu_source": p.meta["src"], "nmfu_args": p.meta["args"], "input_hex": bs.hex(), "script": run.script, "c_source": p.source, "c_header": p.header}
            if run.abort:
                if run.abort[0] == "watchdog":
                    ctx.count("watchdog_inconclusive")
                else:
                    ctx.count("sanitizer_reports")
                    ctx.violation("c03:" + classify_abort(run, p) + ":computed-index", "sanitizer report: %s" % (run.abort[1],), dict(base, stderr=run.stderr))
                continue
            snap = next((e[1] for e in run.events[::-1] if e[0] == "N"), None)
            if snap is None or len(w) > cap - 1:
                continue        # the append overflowed: FAIL before the index expressions
            d = cdrv.parse_snap(snap)
            L = len(w)
            exp = {"ra": w[L - 1] if L >= 1 else 0, "rb": w[L - 1] if L >= 1 else 0, "rc": w[L - 2] if L >= 2 else 0,
                   "rd": (w[0] if L >= 1 else 0) if sep == 44 else 0, "re": 0, "rf": 0}
            ctx.count("index_reads_checked", len(exp))
            ctx.nontrivial((p.meta["src"], tuple(p.meta["args"]), bs.hex()))
            bad = {k: (d.get(k), v) for k, v in exp.items() if d.get(k) != v}
            if bad:
                ctx.violation("c03:out-of-range-index-reads-memory:" + "+".join(sorted(bad)),
                              "an index outside the string must read 0 (got, expected): %s" % (bad,), dict(base, snapshot=snap))
        batch.cleanup()


def _denoted(v):
    return b"".join(bytes([ord(c)]) if ord(c) < 256 else c.encode("utf-8") for c in v)


def constant_family(ctx, rng, quick):
    """string constants (defaults, assignments among the start actions, assignments after a match) with characters of one, two and
    three stored bytes, several assignments to one string before the first byte arrives, in every storage mode with a leak check:
    accepted iff the stored bytes fit, then exactly those bytes, that length, a terminator, no block lost."""
    vals = ["a", "ab", "abc", "\u00e9", "\u20ac", "\u00e9\u20ac", "x\u20ac", "\u65e5\u672c", "abcd\u20ac", ""]
    entries = []
    for _ in range(14 if quick else 100):
        cap = rng.choice([3, 4, 5, 8, 8, 12])
        d, x, y, z, w = (rng.choice(vals) for _ in range(5))
        has_d = rng.random() < 0.4
        nstart = rng.choice([0, 1, 2, 2, 3])
        starts = [x, y, z][:nstart]
        src = "out str[%d] s%s;\nout str[%d] t;\nparser {\n" % (cap, (' = "%s"' % d) if has_d else "", cap)
        for v in starts:
            src += ' s = "%s";\n' % v
        # (a delete before the assignment: with delete-frees the block is gone and must be allocated again, default or not)
        src += ' t = "%s";\n "x";\n%s s = "%s";\n "y";\n}\n' % (y, " delete s;\n" if rng.random() < 0.5 else "", w)
        used = ([d] if has_d else []) + starts + [y, w]
        fits = all(len(_denoted(v)) <= cap - 1 for v in used)
        for row in ([STORAGE[3]] + rng.sample(STORAGE[:3] + STORAGE[4:], 2) if quick else STORAGE):
            entries.append((src, [rng.choice(["-O0", "-O1", "-O3"])] + row + rng.choice([[], ["-fstrings-as-u8"]]), fits,
                            {"s0": _denoted(starts[-1] if starts else (d if has_d else "")), "s1": _denoted(w), "t": _denoted(y)}))
    for chunk in work.chunked(entries, 30):
        progs = []
        for i, (src, args, fits, exp) in enumerate(chunk):
            r = nm.compile_source(src, args, name="p%d" % i)
            ctx.evaluations += 1
            ctx.count("constant_family_programs")
            base = {"nmfu_source": src, "nmfu_args": args}
            if r.status == "internal":
                ctx.violation("c03:constant-family-internal:%s" % r.exc_type, "internal error: %s" % (r.exc_msg,), base)
                continue
            if r.ok != fits:
                ctx.violation("c03:constant-accepted-iff-fits:%s" % ("too-long-accepted" if r.ok else "fitting-rejected"),
                              "constants %s in the declared size but the program was %s (%s)" % ("fit" if fits else "do not fit", r.status, r.exc_msg), base)
            if r.ok:
                progs.append(cdrv.Prog(r, meta={"src": src, "args": args, "label": "constant-family", "exp": exp}))
        if not progs:
            continue
        batch = cdrv.Batch(progs).build()
        runs = []
        for p in batch.live:
            for bs, tag in ((b"", "s0"), (b"x", "s1"), (b"xy", "s1")):
                runs.append(("%s.%s.%d" % (p.name, tag, len(bs)), p, ["QUIETOK 1", "POISON %d" % rng.choice([0xAA, 0xFF, 0x01]), "START"] + (["FEED " + cdrv.hexs(bs)] if bs else []) + ["SNAP", "FREE", "LEAKCHECK"]))
        res = batch.run(runs, timeout=900)
        ctx.count("binaries")
        for rid, run in res.items():
            p = run.prog
            tag = rid.split(".")[1]
            ctx.evaluations += 1
            ctx.count("runs")
            ctx.count("constant_family_runs")
            base = {"nmfu_source": p.meta["src"], "nmfu_args": p.meta["args"], "script": run.script, "c_source": p.source, "c_header": p.header}
            if run.leak:
                ctx.violation("c03:leak-after-free:constant-family", "LeakSanitizer reports a leak after free()", dict(base, stderr=run.stderr))
            if run.leak is not None:
                ctx.count("leak_checks")
            if run.abort and run.abort[0] != "watchdog":
                ctx.count("sanitizer_reports")
                ctx.violation("c03:" + classify_abort(run, p) + ":constant", "sanitizer report: %s" % (run.abort[1],), dict(base, stderr=run.stderr))
                continue
            for inv in run.invariants():
                ctx.violation("c03:invariant:%s:constant" % inv[1], "driver invariant %s failed for output %s (%d, %d)" % (inv[1], inv[2], inv[3], inv[4]), base)
                break
            snap = next((e[1] for e in run.events[::-1] if e[0] == "N"), None)
            if snap is None:
                continue
            d = cdrv.parse_snap(snap)
            want = {"s": p.meta["exp"][tag], "t": p.meta["exp"]["t"]}
            for k, v in want.items():
                got = d.get(k)
                ctx.count("constants_checked")
                ctx.nontrivial((p.meta["src"], tuple(p.meta["args"]), rid.split(".", 1)[1], k))
                if got is None or got[0] != len(v) or got[1][:got[0]] != v:
                    if got is not None and got[3] and not v:
                        continue    # never written on-demand string: NULL, length 0
                    ctx.violation("c03:constant-stored-wrong", "string %s holds %r, the constant denotes %r (%d bytes)" % (k, got, v, len(v)), dict(base, snapshot=snap))
        batch.cleanup()


def run(ctx: Ctx):
    rng = ctx.rng
    quick = ctx.quick
    index_family(ctx, rng, quick)
    constant_family(ctx, rng, quick)
    n_gen = 30 if quick else 250
    rows_per = 4 if quick else 20
    sink = contracts.Sink()
    contracts.install_set_string(sink)
    pool, st = work.generated_pool(rng, n_gen, profile=PROFILE,
                                   args_fn=lambda rng, ast: [rng.choice(["-O0", "-O1", "-O2", "-O3"])] + rng.choice([[], ["-findirect-start-ptr"]]))
    # too-long constants: must be compile-time errors, never accepted (checked through the contract on whatever is accepted)
    tl_pool, st_tl = work.generated_pool(rng, 6 if quick else 40, profile=dict(PROFILE, str_defaults=0.9, str_default_too_long=0.5), max_tries=30 if quick else 200)
    entries = []
    for ast, src, args, r in pool + tl_pool:
        for row in mode_rows(rng, ast, rows_per):
            entries.append((ast, src, args + row, "gen"))
    for fn, src, args, seeds in work.corpus():
        base = fn.rsplit("/", 1)[-1]
        if base in ("gtfs-realtime.nmfu",) and quick:
            continue
        if not re.search(r"\b(str|raw)\b", src):
            continue
        for row in ([[], STORAGE[3]] if quick else STORAGE):
            entries.append((None, src, args + row + ["-findirect-start-ptr"], base))
    ctx.cov.update({"programs_generated": st["generated"] + st_tl["generated"], "programs_accepted": len(pool) + len(tl_pool), "builds_planned": len(entries)})
    kinds = {}
    for ast, *_ in pool:
        for k, v in gen.kinds_of(ast).items():
            kinds[k] = kinds.get(k, 0) + 1
    ctx.extra["node_kinds_in_accepted"] = kinds
    modes_seen = {}

    for chunk in work.chunked(entries, 28):
        progs = []
        for i, (ast, src, args, label) in enumerate(chunk):
            r = nm.compile_source(src, args, name="p%d" % i)
            if not r.ok:
                ctx.count("mode_build_rejected")
                continue
            p = cdrv.Prog(r, meta={"src": src, "args": args, "label": label})
            seeds = []
            ins, reps, L = work.inputs_for(r, rng, ast, nwalk=14 if quick else 30, enum_budget=30 if quick else 120, maxlen=60)
            if len(ins) > (40 if quick else 120):
                ins = rng.sample(ins, 40 if quick else 120)
            # long repetitive inputs overflow every buffer
            for w in list(ins[:6]):
                ins.append((w * 40)[:300])
            p.meta["inputs"] = ins
            progs.append(p)
        if not progs:
            continue
        batch = cdrv.Batch(progs).build()
        for p, err in batch.failed:
            ctx.count("c_compile_failures")
        runs = []
        n = 0
        for p in batch.live:
            mk = " ".join(a for a in p.meta["args"] if a.startswith("-fallocate") or a.startswith("-fdelete") or a in ("-fstrings-as-u8", "-funsafe-string-indexing")) or "in-struct"
            modes_seen[mk] = modes_seen.get(mk, 0) + 1
            for ii, bs in enumerate(p.meta["inputs"]):
                n += 1
                runs.append(("%s.%d" % (p.name, ii), p, scripts(rng, p, bs, leak=(n % 12 == 0))))
        res = batch.run(runs, timeout=900)
        ctx.count("binaries")
        if batch.guards:
            ctx.count("cov_edges_hit", batch.guards[0]); ctx.count("cov_edges_total", batch.guards[1])
        for rid, run in res.items():
            p = run.prog
            ii = int(rid.split(".")[1])
            bs = p.meta["inputs"][ii]
            ctx.evaluations += 1
            ctx.count("runs")
            ctx.count("calls", len(run.script))
            snaps = [e for e in run.events if e[0] in ("N", "R", "H")]
            writes = any(re.search(r"=[1-9]\d*:", e[-3] if e[0] in ("R", "H") else e[1]) for e in snaps) if snaps else False
            if writes:
                ctx.count("runs_with_nonempty_buffers")
                ctx.nontrivial((p.meta["src"], tuple(p.meta["args"]), bs.hex()))
            base = {"nmfu_source": p.meta["src"], "nmfu_args": p.meta["args"], "input_hex": bs.hex(), "script": run.script,
                    "c_source": p.source, "c_header": p.header}
            seen_inv = set()
            for inv in run.invariants():
                ctx.count("invariant_failures")
                if (inv[1], inv[2]) in seen_inv:
                    continue
                seen_inv.add((inv[1], inv[2]))
                first_call = next((e for e in run.events[:run.events.index(inv) + 2][::-1] if e[0] == "R"), None)
                when = "after-start" if not any(e[0] == "R" and e[1] != "S" for e in run.events[:run.events.index(inv)]) else "after-call"
                ctx.violation("c03:invariant:%s:first-%s" % (inv[1], when),
                              "driver invariant %s failed for output %s (counter/value %d, %d), first seen %s" % (inv[1], inv[2], inv[3], inv[4], when),
                              dict(base, events=[str(e) for e in run.events[:12]]))
            if run.leak:
                ctx.violation("c03:leak-after-free", "LeakSanitizer reports a leak after free()", dict(base, stderr=run.stderr))
            if run.leak is not None:
                ctx.count("leak_checks")
            if run.abort:
                kind = run.abort[0]
                if kind == "watchdog":
                    ctx.count("watchdog_inconclusive")
                elif kind.startswith("ubsan:") and any(u in run.abort[1] for u in USER_UB):
                    ctx.count("user_requested_ub_skipped")
                else:
                    ctx.count("sanitizer_reports")
                    ctx.violation("c03:" + classify_abort(run, p), "sanitizer report: %s" % (run.abort[1],), dict(base, stderr=run.stderr))
            for sp in run.spins():
                ctx.count("spins_seen")     # C04's business
        if not ctx.samples and res:
            rid, run = next(iter(res.items()))
            ctx.sample({"args": run.prog.meta["args"], "input": run.prog.meta["inputs"][int(rid.split(".")[1])][:40].decode("latin-1"),
                        "script": run.script[:8], "events": [str(e) for e in run.events[:5]]})
        if len(ctx.samples) < 4:
            for rid, run in res.items():
                if any(e[0] == "H" for e in run.events) and len(run.events) > 3:
                    ctx.sample({"args": run.prog.meta["args"], "input": run.prog.meta["inputs"][int(rid.split(".")[1])][:40].decode("latin-1"),
                                "script": run.script[:8], "events": [str(e) for e in run.events[:5]]})
                    break
        batch.cleanup()

    # the contract observed every set-string the compilations above performed
    ctx.cov["set_string_contract_evaluations"] = sink.evals
    for rec in sink.failures:
        ctx.violation("c03:set-string:" + rec["why"], "emitted constant string write is wrong: %s" % rec["why"], rec)
    ctx.extra["storage_modes_built"] = modes_seen
    ctx.floor("runs", 1500 if quick else 20000)
    ctx.floor("runs_with_nonempty_buffers", 300)
    ctx.floor("set_string_contract_evaluations", 30)
    ctx.floor("leak_checks", 50)
    ctx.floor("index_reads_checked", 300)
    ctx.floor("constants_checked", 60)
    ctx.inconclusive_if(len(modes_seen) < 6, "fewer than 6 storage mode sets were built")
    ctx.rule = ("case = (program, storage-mode set, input, hostile call history: poisoned state, random chunking, calls after a terminal "
                "result, end(), free twice, start/free cycles); non-trivial = some string/raw output became non-empty; distinct by "
                "(source, options, input)")
    ctx.assumptions += ["ASan is object-granular: intra-struct overflows are caught by the counter invariants, the set-string contract and the dynamic modes",
                        "UBSan arithmetic reports inside user-written expressions are user-requested UB and are skipped (counted)"]


def replay(path):
    d = json.load(open(path))
    if "nmfu_source" not in d:
        print(json.dumps(d, indent=1)[:2000])
        return 0
    r = nm.compile_source(d["nmfu_source"], d["nmfu_args"], name="p0")
    print("compile:", r.status, r.exc_type)
    if not r.ok:
        return 1
    p = cdrv.Prog(r)
    b = cdrv.Batch([p]).build()
    res = b.run([("x", p, d["script"])])
    run = res["x"]
    for e in run.events:
        print(e)
    print("abort:", run.abort)
    print((run.stderr or "")[:3000])
    b.cleanup()
    return 1 if (run.abort or run.invariants() or run.leak) else 0
