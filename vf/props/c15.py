"""C15 - literals denote exactly the bytes and values they spell.

SUT: emitted C. Match contexts (string, case-insensitive, binary, regex literal, concatenation) are checked as languages
({X} resp. case variants) at every prefix and by 256-byte sweeps at every position; assignment/default contexts by the
stored bytes and counter; character constants and integer literals by the stored value. Oracle: vf/lit.py + vf/rx.py
(the documented escape list), plus the set-string contract on the real code generator.
"""
import json
import string

from .. import cdrv, contracts, gen, lang, lit, nm, rx, work
from ..common import Ctx

LEVEL = "exploration"

NAMED = {10: "\\n", 13: "\\r", 9: "\\t", 8: "\\b", 0: "\\0", 34: '\\"', 92: "\\\\"}


def spell(rng, bs, style):
    """nmfu string literal for bs; style: 'mixed' | 'hex' | 'HEX'"""
    out = ""
    for b in bs:
        c = chr(b)
        opts = []
        if style in ("hex", "HEX"):
            opts = [("\\x%02x" if style == "hex" else "\\x%02X") % b]
        else:
            opts.append("\\x%02x" % b)
            if b in NAMED:
                opts.append(NAMED[b])
            if 32 <= b < 127 and c not in '"\\/':
                opts += [c, c, c]
        out += rng.choice(opts)
    return '"' + out + '"'


def rx_literal(bs):
    """text regex spelling of bytes, or None if some byte has no text spelling"""
    out = ""
    for b in bs:
        if not rx.text_char_ok(b):
            return None
        out += rx._pch_text(b)
    return "/" + out + "/"


def run(ctx: Ctx):
    rng = ctx.rng
    quick = ctx.quick
    sink = contracts.Sink()
    contracts.install_set_string(sink)
    rounds = 1 if quick else 6
    todo = []      # (pattern_source, sem, extra strings)

    def add_match(bs, ctxkind):
        bs = bytes(bs)
        if ctxkind == "str":
            src, sem = spell(rng, bs, rng.choice(["mixed", "mixed", "hex", "HEX"])), rx.lit(bs)
        elif ctxkind == "casei":
            src, sem = spell(rng, bs, "mixed") + "i", rx.casei(bs)
        elif ctxkind == "bin":
            src, sem = '"' + rng.choice([" ", "", "  "]).join(("%02x" if rng.random() < 0.5 else "%02X") % b for b in bs) + '"b', rx.lit(bs)
        elif ctxkind == "rx":
            src = rx_literal(bs)
            if src is None:
                return
            sem = rx.lit(bs)
        elif ctxkind == "brx":
            src, sem = "b/" + " ".join("%02x" % b for b in bs) + "/", rx.lit(bs)
        else:   # concat of two spellings
            k = max(1, len(bs) // 2)
            src = "(" + spell(rng, bs[:k], "mixed") + " " + '"' + " ".join("%02x" % b for b in bs[k:]) + '"b' + ")"
            sem = rx.lit(bs)
        extra = [bs]
        for i in range(len(bs)):
            for v in {bs[i] ^ 0x20, (bs[i] + 1) & 255, (bs[i] - 1) & 255, bs[i] ^ 0x80}:
                extra.append(bs[:i] + bytes([v]) + bs[i + 1:])
        todo.append((src, sem, extra))

    for _ in range(rounds):
        for kind in ("str", "casei", "bin", "brx", "concat"):
            perm = list(range(256))
            rng.shuffle(perm)
            for i in range(0, 256, 8):
                add_match(perm[i:i + 8], kind)
        printable = [b for b in range(32, 127) if rx.text_char_ok(b)] + [10, 9, 13]
        rng.shuffle(printable)
        for i in range(0, len(printable), 6):
            add_match(printable[i:i + 6], "rx")
        # hazards: escape followed by hex digit / digit / '?', single bytes, empty-ish
        for b in rng.sample(range(256), 10 if quick else 40):
            for follow in (b"a", b"F", b"7", b"?", b"x41"):
                add_match(bytes([b]) + follow, "str")
            add_match(bytes([b]), rng.choice(["str", "casei", "bin"]))
        for letters in (b"aZ", b"Hello", b"@[`{", b"zZ9", string.ascii_letters.encode()[:8]):
            add_match(letters, "casei")
    ctx.count("match_literals", len(todo))
    lang.check_languages(ctx, todo, rng, "c15:match", strings_budget=12, sweep_states=9, per_batch=30, max_reps=10)

    # ---- assignment / default / char constants / integers: values read back from snapshots -----------------------
    progs_src = []     # (src, args, expectations: [(when, name, expected)])
    for _ in range(rounds):
        perm = list(range(256))
        rng.shuffle(perm)
        for i in range(0, 256, 8):
            a, d = bytes(perm[i:i + 8]), bytes(perm[(i + 64) % 256:(i + 64) % 256 + 8])
            term = rng.random() < 0.5
            decl = "out %s[%d] s0 = %s;\n" % ("str" if term else "unterminated str", 9 if term else 8, spell(rng, d, "mixed") if rng.random() < 0.7 else '"' + " ".join("%02x" % b for b in d) + '"b')
            decl += "out str[12] s1;\n"
            body = ' "k";\n s0 = %s;\n s1 = %s;\n "z";\n' % (spell(rng, a, rng.choice(["mixed", "hex"])), spell(rng, a[:3] + b"a1F", "mixed"))
            progs_src.append((decl + "parser {\n" + body + "}\n", [rng.choice(["-O0", "-O2"])] + rng.choice([[], ["-fstrings-as-u8"], ["-fallocate-str-space-dynamic"]]),
                              [("start", "s0", d), ("after", "s0", a), ("after", "s1", a[:3] + b"a1F")]))
    # neighbour pairs: bytes whose C spelling is an escape (or could be taken for one) directly followed by characters that would extend
    # an escape sequence (octal / hex digits, x, quote, backslash, ?): every pair occurs in a stored string in every run
    sensitive = [0, 1, 7, 8, 9, 10, 11, 12, 13, 27, 34, 39, 63, 92, 127, 128, 0xc3, 255]
    followers = [ord(c) for c in "0178"] + [ord(c) for c in "9afAFxX\"\\?'n"] + [0, 0x80]
    pairs = [(b, f) for b in sensitive for f in followers]
    rng.shuffle(pairs)
    for i in range(0, len(pairs), 10):
        grp = pairs[i:i + 10]
        a = bytes(x for pr in grp[:5] for x in pr)
        d = bytes(x for pr in grp[5:] for x in pr) or b"0"
        term = rng.random() < 0.5
        decl = "out %s[%d] s0 = %s;\nout str[12] s1;\n" % ("str" if term else "unterminated str", len(d) + (1 if term else 0), spell(rng, d, rng.choice(["mixed", "hex", "mixed"])))
        body = ' "k";\n s1 = %s;\n "z";\n' % spell(rng, a, rng.choice(["mixed", "hex", "mixed"]))
        progs_src.append((decl + "parser {\n" + body + "}\n", [rng.choice(["-O0", "-O2"])] + rng.choice([[], ["-fstrings-as-u8"], ["-fallocate-str-space-dynamic"]]),
                          [("start", "s0", d), ("after", "s1", a)]))
    ctx.cov["neighbour_pairs_stored"] = len(pairs)
    # char constants
    chars = [(("'%s'" % chr(b)), b) for b in range(32, 127) if chr(b) not in "'\\"]
    chars += [("'\\n'", 10), ("'\\r'", 13), ("'\\t'", 9), ("'\\b'", 8), ("'\\0'", 0), ("'\\''", 39), ("'\\\\'", 92), ("'\\\"'", 34)]
    rng.shuffle(chars)
    for i in range(0, len(chars), 8):
        grp = chars[i:i + 8]
        decl = "".join("out int i%d;\n" % j for j in range(len(grp)))
        body = ' "k";\n' + "".join(" i%d = %s;\n" % (j, (sp if rng.random() < 0.5 else "[%s]" % sp)) for j, (sp, v) in enumerate(grp)) + ' "z";\n'
        progs_src.append((decl + "parser {\n" + body + "}\n", [], [("after", "i%d" % j, v) for j, (sp, v) in enumerate(grp)]))
    # integer literals in every radix with sign, up to 64 bits
    ints = []
    for _ in range(90 if quick else 400):
        bits = rng.choice([1, 4, 7, 8, 15, 16, 31, 32, 33, 62, 63])
        v = rng.randrange(0, 1 << bits)
        r = rng.random()
        if r < 0.3:
            sp, val = str(v), v
        elif r < 0.4:
            sp, val = "-" + str(v), -v
        elif r < 0.45:
            sp, val = "+" + str(v), v
        elif r < 0.7:
            sp, val = rng.choice(["0x%x", "0x%X", "0x00%x"]) % v, v
        elif r < 0.78:
            sp, val = "-0x%x" % v, -v
        elif r < 0.82:
            sp, val = "+0x%x" % v, v
        else:
            sp, val = "0b" + bin(v)[2:], v
        ints.append((sp, val))
    ints += [("0", 0), ("-0", 0), ("0x0", 0), ("0b0", 0), ("00012", 12), ("0b0001", 1), ("2147483647", 2147483647), ("-2147483648", -2147483648),
             ("9223372036854775807", 2 ** 63 - 1), ("0x7fffffffffffffff", 2 ** 63 - 1)]
    for i in range(0, len(ints), 6):
        grp = ints[i:i + 6]
        decl = "".join("out int{size 8} i%d;\n" % j for j in range(len(grp)))
        body = ' "k";\n' + "".join(" i%d = %s;\n" % (j, (sp if rng.random() < 0.5 else "[%s]" % sp)) for j, (sp, v) in enumerate(grp)) + ' "z";\n'
        progs_src.append((decl + "parser {\n" + body + "}\n", [], [("after", "i%d" % j, v) for j, (sp, v) in enumerate(grp)]))

    for chunk in work.chunked(progs_src, 30):
        progs = []
        for i, (src, args, exp) in enumerate(chunk):
            r = nm.compile_source(src, args, name="p%d" % i)
            if not r.ok:
                ctx.count("value_programs_rejected")
                if len(ctx.extra.setdefault("rejected_examples", [])) < 4:
                    ctx.extra["rejected_examples"].append({"src": src[:300], "why": (r.exc_type, (r.exc_msg or "")[:100])})
                continue
            progs.append(cdrv.Prog(r, meta={"src": src, "args": args, "exp": exp}))
        if not progs:
            continue
        batch = cdrv.Batch(progs).build()
        for p, err in batch.failed:
            ctx.violation("c15:emitted-c-does-not-compile", "literal program does not compile as C: %s" % err.splitlines()[0][:160] if err else "?",
                          {"nmfu_source": p.meta["src"], "nmfu_args": p.meta["args"], "stderr": err})
        runs = [("%s" % p.name, p, ["START", "SNAP", "FEED 6b", "FEED 7a", "SNAP", "FREE"]) for p in batch.live]
        res = batch.run(runs)
        for p in batch.live:
            run_ = res.get(p.name)
            if run_ is None:
                continue
            snaps = [cdrv.parse_snap(e[1]) for e in run_.events if e[0] == "N"]
            if run_.abort or len(snaps) < 2:
                ctx.violation("c15:sanitizer-or-abort", "literal program aborted: %s" % (run_.abort,), {"nmfu_source": p.meta["src"], "stderr": run_.stderr})
                continue
            for when, name, want in p.meta["exp"]:
                got = snaps[0 if when == "start" else 1].get(name)
                ctx.evaluations += 1
                ctx.count("value_observations")
                ctx.nontrivial((p.meta["src"], name, when))
                if isinstance(want, bytes):
                    ok = got is not None and got[0] == len(want) and got[1] == want
                    what = "string-%s" % ("default" if when == "start" else "assignment")
                else:
                    ok = got == want
                    what = "char-constant" if "'" in p.meta["src"] else "integer-literal"
                if not ok:
                    ctx.violation("c15:value:" + what, "output %s holds %r, the spelling denotes %r" % (name, got, want),
                                  {"nmfu_source": p.meta["src"], "nmfu_args": p.meta["args"], "output": name, "observed": str(got), "expected": str(want)})
        batch.cleanup()
    ctx.cov["set_string_contract_evaluations"] = sink.evals
    for rec in sink.failures:
        ctx.violation("c15:set-string:" + rec["why"], "emitted constant string write is wrong: %s" % rec["why"], rec)
    ctx.sample({"match_literal": todo[0][0], "value_program": progs_src[0][0][:200]})
    ctx.floor("sweeps", 800)
    ctx.floor("value_observations", 200)
    ctx.floor("set_string_contract_evaluations", 60)
    ctx.rule = ("match contexts: 8-byte literals tiling all 256 byte values in each of string / case-insensitive / binary / binary-regex / "
                "concatenation spellings (text regex: printable bytes), each swept with all 256 next bytes at every position and run on the "
                "literal and its single-byte mutations; value contexts: every byte in assigned and default strings, every character "
                "constant, integer literals in all radices with sign up to 63 bits; non-trivial = every observation; distinct by (spelling, input)")
    ctx.assumptions += ["vf/lit.py + the documented escape list define what a spelling denotes"]


def replay(path):
    d = json.load(open(path))
    print(json.dumps(d, indent=1)[:3000])
    if "nmfu_source" in d:
        r = nm.compile_source(d["nmfu_source"], d.get("nmfu_args", []), name="p0")
        print("compile:", r.status, r.exc_type)
    return 0
