"""C11 - every accepted program compiles cleanly in every option combination.

SUT: the header and source text the real code generator emits. Oracle: the compilers themselves (gcc -std=c99 / -std=c11,
clang, g++ on the header) with -Wall -Werror -Wno-unused-label, a TU that uses every documented API name, and nm on the
object for the documented entry points.
"""
import json
import os
import re
import subprocess
from concurrent.futures import ThreadPoolExecutor

from .. import gen, nm, work
from ..common import Ctx, mktmp
from . import c03

LEVEL = "exploration"

WARN = ["-Wall", "-Werror", "-Wno-unused-label"]
CODEGEN_FLAGS = [
    ["-feof-support"], ["-fyield-support"], ["-findirect-start-ptr"], ["-fzero-len-input-support"], ["-fstrict-done-token-generation"],
    ["-finclude-user-ptr"], ["-fallocate-str-space-dynamic"], ["-fallocate-str-space-dynamic-on-demand"], ["-fdelete-string-free-memory"],
    ["-funsafe-string-indexing"], ["-fstrings-as-u8"], ["-fhook-per-state"], ["-fuse-pragma-once"], ["-fno-use-cplusplus-guard"],
    ["-fuse-packed-enums"], ["-fno-remove-inaccesible-states"], ["-fno-simplify-else-conditions"], ["-fshortcircuit-fallthroughs"],
    ["-fcollapse-transition-ranges"], ["--collapsed-range-length", "1"], ["--collapsed-range-length", "6"],
]
LEVELS = ["-O0", "-O1", "-O2", "-O3"]

PROFILES = [
    {"w": {"hook": 12, "appendm": 10, "appendc": 6, "assignstr": 6, "delete": 5, "finish": 5, "gcase": 4}, "str_defaults": 0.4, "depth": 3},
    {"yields": True, "w": {"yield_": 10, "hook": 10, "gcase": 5}},
    {"eof": True, "w": {"hook": 10, "wait": 6, "try_": 10}},
    {"eof": True, "yields": True, "w": {"yield_": 8, "hook": 8, "try_": 10, "loop": 8}},
]


def covering_rows(rng, k, t=2):
    """greedy random rows covering all t-way on/off combinations of CODEGEN_FLAGS as far as k rows allow"""
    n = len(CODEGEN_FLAGS)
    import itertools
    need = set()
    for combo in itertools.combinations(range(n), t):
        for vals in itertools.product((0, 1), repeat=t):
            need.add((combo, vals))
    rows = []
    while need and len(rows) < k:
        best, bestc = None, -1
        for _ in range(12):
            row = [rng.random() < 0.4 for _ in range(n)]
            c = sum(1 for combo, vals in rng.sample(sorted(need), min(len(need), 300)) if all(row[i] == bool(v) for i, v in zip(combo, vals)))
            if c > bestc:
                best, bestc = row, c
        rows.append(best)
        need = {(combo, vals) for combo, vals in need if not all(best[i] == bool(v) for i, v in zip(combo, vals))}
    return rows, len(need)


def row_args(rng, row):
    a = [rng.choice(LEVELS)]
    for on, f in zip(row, CODEGEN_FLAGS):
        if on:
            if f[0] == "--collapsed-range-length" and "--collapsed-range-length" in a:
                continue
            a += f
    return a


def api_tu(name, res):
    """a translation unit that uses every documented name of the generated API"""
    m = nm.nmfu()
    PF = m.ProgramFlag
    fl = res.flags
    cc = res.cctx
    U = name.upper()
    L = ['#include "%s.h"' % name, "#include <stddef.h>"]
    A = L.append
    if fl[PF.HOOK_GLOBAL]:
        for h in cc.hooks:
            A("void %s_%s_hook(%s_state_t *state, uint8_t inval) { (void)state; (void)inval; }" % (name, h, name))
    else:
        for h in cc.hooks:
            A("static void my_%s(struct %s_state *state, uint8_t inval) { (void)state; (void)inval; }" % (h, name))
    A("int use_api(const uint8_t *buf, size_t n) {")
    A("  %s_state_t st;" % name)
    A("  %s_result_t r = %s_start(&st);" % (name, name))
    if fl[PF.HOOK_PER_STATE] and not fl[PF.HOOK_GLOBAL]:
        for h in cc.hooks:
            A("  { %s_hook_t fp = my_%s; st.%s_hook = fp; }" % (name, h, h))
    if fl[PF.INCLUDE_USER_PTR]:
        A("  st.userptr = NULL;")
    if fl[PF.INDIRECT_START_PTR]:
        A("  const uint8_t *p = buf; r = %s_feed(&p, buf + n, &st);" % name)
    else:
        A("  r = %s_feed(buf, buf + n, &st);" % name)
    if fl[PF.EOF_SUPPORT]:
        A("  r = %s_end(&st);" % name)
    A("  switch (r) { case %s_OK: case %s_FAIL: case %s_DONE: break;" % (U, U, U))
    for c in cc.finish_codes:
        A("    case %s_FINISH_%s: break;" % (U, c))
    for c in cc.yield_codes:
        A("    case %s_YIELD_%s: break;" % (U, c))
    A("  }")
    T = m.OutputStorageType
    for o in cc.state_object_spec:
        if o.type == T.ENUM:
            A("  { %s_out_%s_t e = st.c.%s; switch (e) {" % (name, o.name, o.name))
            for v in o.enum_values:
                A("    case %s_%s_%s: break;" % (U, o.name.upper(), v.upper()))
            A("  } }")
        elif o.type == T.STR:
            A("  { unsigned long len = st.%s_counter; (void)len; (void)st.c.%s[0]; }" % (o.name, o.name))
        elif o.type == T.RAW:
            A("  { unsigned long len = st.%s_counter; (void)len; (void)sizeof(st.c.%s); }" % (o.name, o.name))
        elif o.type == T.BOOL:
            A("  { bool b = st.c.%s; (void)b; }" % o.name)
        else:
            A("  { long long v = (long long)st.c.%s; (void)v; }" % o.name)
    if fl[PF.DYNAMIC_MEMORY]:
        A("  %s_free(&st);" % name)
    A("  return (int)r;\n}")
    return "\n".join(L) + "\n"


def check_one(d, idx, res):
    """returns list of (tool-tag, stderr) failures and the set of defined symbols"""
    name = res.name
    base = os.path.join(d, "c%d" % idx)
    os.makedirs(base, exist_ok=True)
    with open(os.path.join(base, name + ".h"), "w") as f:
        f.write(res.header)
    with open(os.path.join(base, name + ".c"), "w") as f:
        f.write(res.source)
    with open(os.path.join(base, "hdr_only.c"), "w") as f:
        f.write('#include "%s.h"\n#include "%s.h"\n' % (name, name))
    with open(os.path.join(base, "hdr_only.cpp"), "w") as f:
        f.write('#include "%s.h"\n#include "%s.h"\nint main() { %s_state_t s; (void)s; return 0; }\n' % (name, name, name))
    with open(os.path.join(base, "api.c"), "w") as f:
        f.write(api_tu(name, res))
    cmds = [
        ("gcc-c99", ["gcc", "-std=c99"] + WARN + ["-c", name + ".c", "-o", "a1.o"]),
        ("gcc-c11", ["gcc", "-std=c11"] + WARN + ["-c", name + ".c", "-o", "a2.o"]),
        ("clang", ["clang"] + WARN + ["-c", name + ".c", "-o", "a3.o"]),
        ("header-c", ["gcc", "-std=c99"] + WARN + ["-c", "hdr_only.c", "-o", "h1.o"]),
        ("header-c++", ["g++"] + WARN + ["-c", "hdr_only.cpp", "-o", "h2.o"]),
        ("api-use", ["gcc", "-std=c11"] + WARN + ["-c", "api.c", "-o", "api.o"]),
    ]
    fails = []
    for tag, cmd in cmds:
        r = subprocess.run(cmd, cwd=base, capture_output=True, text=True)
        if r.returncode != 0:
            fails.append((tag, r.stderr[:1500]))
    syms = set()
    if os.path.exists(os.path.join(base, "a1.o")):
        r = subprocess.run(["nm", "--defined-only", "a1.o"], cwd=base, capture_output=True, text=True)
        for ln in r.stdout.splitlines():
            parts = ln.split()
            if len(parts) == 3 and parts[1] == "T":
                syms.add(parts[2])
    return fails, syms


def classify(tag, err):
    m = re.search(r"label ['‘](\w+?)_?\d*['’] used but not defined", err)
    if m:
        return "undefined-label:" + m.group(1)
    m = re.search(r"use of undeclared label '(\w+?)_?\d*'", err)
    if m:
        return "undefined-label:" + m.group(1)
    m = re.search(r"error: (.*)", err)
    msg = m.group(1) if m else err[:80]
    msg = re.sub(r"['‘’`][^'‘’`]*['‘’`]", "X", msg)
    msg = re.sub(r"\d+", "N", msg)[:70]
    return "%s:%s" % (tag, msg)


def bait_programs(rng, n):
    """programs whose expressions sit where compilers issue value-dependent diagnostics: narrow variables, lengths, indexed bytes and
    $last against constants outside their range, constants that do not fit their target, constant indices outside the buffer,
    constant conditions, an append that reads the counter it increments"""
    consts = ["0", "1", "-1", "127", "128", "255", "256", "300", "1000", "32768", "65535", "65536", "70000", "2147483647", "0xffffffff", "-129", "'a'"]
    decls = ("out int{signed, size 1} a;\nout int{unsigned, size 1} b;\nout int{signed, size 2} c;\nout int{unsigned, size 2} d;\nout int e;\n"
             "out int{unsigned, size 4} f;\nout int{size 8} g;\nout bool q = false;\nout str[3] s;\nout unterminated str[300] t;\nout raw{uint16_t} r;\nhook h;\n")
    out = []
    for _ in range(n):
        atoms = ["a", "b", "c", "d", "e", "f", "g", "s.len", "t.len", "r.len", "s[0]", "s[1]", "s[7]", "t[299]", "t[300]", "r[1]", "r[2]", "$last", "s[s.len]", "s[a]"]
        def cmp_():
            if rng.random() < 0.12:
                a = rng.choice(atoms)          # an expression compared with itself
                return "%s %s %s" % (a, rng.choice(["==", "!=", "<", ">="]), a)
            return "%s %s %s" % ((rng.choice(atoms), rng.choice(["==", "!=", "<", ">", "<=", ">="]), rng.choice(consts))[:: rng.choice([1, -1])])
        stmts = []
        for _ in range(rng.choice([3, 5, 8])):
            k = rng.random()
            tgt = rng.choice("abcdefg")
            if k < 0.35:
                stmts.append("  if %s { h(); }\n" % cmp_())
            elif k < 0.45:
                stmts.append("  if %s && %s { h(); } elif %s || q { %s = %s; } else { h(); }\n" % (cmp_(), cmp_(), cmp_(), tgt, rng.choice(consts)))
            elif k < 0.6:
                stmts.append("  %s = %s;\n" % (tgt, rng.choice(consts)))
            elif k < 0.75:
                op = rng.choice(["+", "-", "*", "&", "|", "^", "<<", ">>", "/", "%"])
                # (a constant shift count outside the operand width, or a zero divisor, is undefined in C: the user's error, not the generator's)
                rhs = rng.choice(["1", "3", "7"]) if op in ("<<", ">>") else rng.choice([c for c in consts if c not in ("0", "-1", "-129", "0xffffffff", "2147483647", "65536", "70000", "32768", "65535")] + ["3", "7"])
                stmts.append("  %s = [%s %s %s];\n" % (tgt, rng.choice(atoms), op, rhs))
            elif k < 0.85:
                stmts.append("  %s += [%s];\n" % (rng.choice("st"), rng.choice(atoms + consts[:8])))
            elif k < 0.92:
                stmts.append("  if %s { %s = %s; }\n" % (cmp_(), tgt, rng.choice(consts)))
            else:
                stmts.append("  if %s %s %s { h(); }\n" % (rng.choice(consts), rng.choice(["==", "<", ">="]), rng.choice(consts)))
        stmts.append(rng.choice(["  s += [s.len];\n", "  t += [t.len + 1];\n", "  s += [s.len + s[0]];\n"]))
        body = "".join('  /[a-z]/;\n' + x for x in stmts)
        out.append(decls + "parser {\n loop {\n" + body + '  ";";\n }\n}\n')
    return out


def run(ctx: Ctx):
    rng = ctx.rng
    quick = ctx.quick
    n_prog = 16 if quick else 36
    n_rows = 20 if quick else 90
    d = mktmp()
    m = nm.nmfu()
    PF = m.ProgramFlag
    progs = []
    stg = 0
    for i in range(n_prog):
        pool, st = work.generated_pool(rng, 1, profile=PROFILES[i % len(PROFILES)])
        stg += st["generated"]
        progs += [(ast, src, args, "gen") for ast, src, args, r in pool]
    for fn, src, args, seeds in work.corpus():
        b = fn.rsplit("/", 1)[-1]
        if quick and b in ("gtfs-realtime.nmfu", "ttc_rdf.nmfu", "http.nmfu"):
            continue
        progs.append((None, src, [a for a in args if not a.startswith("-O")], b))
    for src in bait_programs(rng, 12 if quick else 120):
        progs.append((None, src, [], "bait"))
    # the smallest programs: nothing tests the input byte, nothing is stored, nothing is called
    for src in ["parser { /./; }\n", "parser { loop { /./; } }\n", "hook h;\nparser { h(); /./; }\n", "out int e;\nparser { /./; e = 1; }\n",
                "out str[4] s;\nparser { s += /./; }\n", "finishcode F;\nparser { /./; finish F; }\n",
                # a returning action and a conditional break on one transition (the label the break skips to ends the block)
                'out int i0;\nout str[3] s1;\nfinishcode F0;\nparser {\n "da";\n loop l1 {\n  try {\n   "\\n1"i;\n   finish F0;\n  }\n  catch (nomatch, outofspace) {\n   s1 += "b 2";\n  }\n  if i0 + \'0\' != \'b\' {\n   break;\n  }\n }\n "e"i;\n}\n',
                'out int i0;\nhook h;\nparser {\n loop {\n  "a";\n  if i0 == 1 {\n   finish;\n  }\n  if i0 == 2 {\n   break;\n  }\n }\n "z";\n}\n']:
        progs.append((None, src, [], "tiny"))
    # widths chosen from counts: the state member (values 0..number of states, the extra one is the finished state), string length counters
    # (0..capacity, unterminated strings reach the capacity itself), around 256
    for n in (253, 254, 255, 256, 257):
        progs.append((None, 'parser {\n "%s";\n finish;\n}\n' % ("a" * n), [], "tiny"))
    for n in (255, 256, 257):
        progs.append((None, 'out %sstr[%d] s;\nout int n = 0;\nparser {\n try {\n  s += /[a-z]+/;\n  ";";\n }\n catch (outofspace) {\n  n = [s.len];\n }\n}\n' % (rng.choice(["", "unterminated "]), n), [], "tiny"))
    rows, uncovered = covering_rows(rng, n_rows, 2 if quick else 3)
    ctx.extra["covering_rows"] = len(rows)
    ctx.extra["uncovered_%s_way_combinations" % (2 if quick else 3)] = uncovered
    jobs = []
    idx = 0
    for pi, (ast, src, args, label) in enumerate(progs):
        my_rows = rows if label == "gen" else rng.sample(rows, min(len(rows), 3 if quick else 10))
        for row in my_rows:
            a = args + row_args(rng, row)
            if "-funsafe-string-indexing" in a and ast is not None and c03.has_idx(ast):
                a.remove("-funsafe-string-indexing")     # unsafe indexing is a promise that indices are in range; generated ones are not
            r = nm.compile_source(src, a, name="prs")
            ctx.count("compilations")
            if not r.ok:
                ctx.count("rejected_under_options")
                if label == "bait":
                    ctx.count("bait_rejected")
                continue
            if label == "bait":
                ctx.count("bait_accepted")
            jobs.append((idx, r, src, a, label))
            idx += 1
    ctx.count("accepted_program_option_pairs", len(jobs))
    with ThreadPoolExecutor(max_workers=6) as ex:
        results = list(ex.map(lambda j: check_one(d, j[0], j[1]), jobs))
    for (i, r, src, a, label), (fails, syms) in zip(jobs, results):
        ctx.evaluations += 1
        ctx.count("compiler_invocations", 6)
        ctx.nontrivial((src, tuple(a)))
        for tag, err in fails:
            ctx.count("compile_failures")
            ctx.violation("c11:" + classify(tag, err), "%s rejects the emitted code: %s" % (tag, err.strip().splitlines()[0][:200] if err.strip() else "?"),
                          {"nmfu_source": src, "nmfu_args": a, "tool": tag, "stderr": err, "label": label})
        if syms:
            want = {"prs_start", "prs_feed"}
            if r.flags[PF.EOF_SUPPORT]:
                want.add("prs_end")
            if r.flags[PF.DYNAMIC_MEMORY]:
                want.add("prs_free")
            have = {s for s in syms if s.startswith("prs_")}
            if have != want:
                ctx.violation("c11:entry-points:%s" % ("missing" if want - have else "extra"),
                              "object defines %s, documented API for these options is %s" % (sorted(have), sorted(want)),
                              {"nmfu_source": src, "nmfu_args": a})
            ctx.count("nm_checks")
    if jobs:
        i, r, src, a, label = jobs[0]
        ctx.sample({"args": a, "label": label, "source_head": src[:300], "tools": ["gcc-c99", "gcc-c11", "clang", "header-c", "header-c++", "api-use", "nm"]})
    ctx.floor("accepted_program_option_pairs", 80 if quick else 1500)
    ctx.floor("nm_checks", 60)
    ctx.rule = ("case = (accepted program, option row); rows form a greedy random covering array (pairs quick / triples thorough) over %d "
                "code-generation flags x -O level; each case = 6 compiler invocations + nm; distinct by (source, options); every case is "
                "non-trivial (real compilers on real output)" % len(CODEGEN_FLAGS))
    ctx.assumptions += ["gcc 12 / clang 14 / g++ as installed are the oracle for 'valid C'", "-Wno-unused-label as the property allows"]


def replay(path):
    d = json.load(open(path))
    r = nm.compile_source(d["nmfu_source"], d["nmfu_args"], name="prs")
    print("compile:", r.status, r.exc_type)
    if not r.ok:
        return 1
    tmp = mktmp()
    fails, syms = check_one(tmp, 0, r)
    for tag, err in fails:
        print(tag, err[:800])
    print(sorted(syms))
    return 1 if fails else 0
