"""C11 - every accepted program compiles cleanly in every option combination.

SUT: the header and source text the real code generator emits. Oracle: the compilers themselves (gcc -std=c99 / -std=c11,
clang, g++ on the header) with -Wall -Werror -Wno-unused-label, a TU that uses every documented API name, and nm on the
object for the documented entry points.
"""
import json
import os
import re
import subprocess
from concurrent.futures import ThreadPoolExecutor

from .. import gen, nm, work
from ..common import Ctx, mktmp
from . import c03

LEVEL = "exploration"

WARN = ["-Wall", "-Werror", "-Wno-unused-label"]
CODEGEN_FLAGS = [
    ["-feof-support"], ["-fyield-support"], ["-findirect-start-ptr"], ["-fzero-len-input-support"], ["-fstrict-done-token-generation"],
    ["-finclude-user-ptr"], ["-fallocate-str-space-dynamic"], ["-fallocate-str-space-dynamic-on-demand"], ["-fdelete-string-free-memory"],
    ["-funsafe-string-indexing"], ["-fstrings-as-u8"], ["-fhook-per-state"], ["-fuse-pragma-once"], ["-fno-use-cplusplus-guard"],
    ["-fuse-packed-enums"], ["-fno-remove-inaccesible-states"], ["-fno-simplify-else-conditions"], ["-fshortcircuit-fallthroughs"],
    ["-fcollapse-transition-ranges"], ["--collapsed-range-length", "1"], ["--collapsed-range-length", "6"],
]
LEVELS = ["-O0", "-O1", "-O2", "-O3"]

PROFILES = [
    {"w": {"hook": 12, "appendm": 10, "appendc": 6, "assignstr": 6, "delete": 5, "finish": 5, "gcase": 4}, "str_defaults": 0.4, "depth": 3},
    {"yields": True, "w": {"yield_": 10, "hook": 10, "gcase": 5}},
    {"eof": True, "w": {"hook": 10, "wait": 6, "try_": 10}},
    {"eof": True, "yields": True, "w": {"yield_": 8, "hook": 8, "try_": 10, "loop": 8}},
]


def covering_rows(rng, k, t=2):
    """greedy random rows covering all t-way on/off combinations of CODEGEN_FLAGS as far as k rows allow"""
    n = len(CODEGEN_FLAGS)
    import itertools
    need = set()
    for combo in itertools.combinations(range(n), t):
        for vals in itertools.product((0, 1), repeat=t):
            need.add((combo, vals))
    rows = []
    while need and len(rows) < k:
        best, bestc = None, -1
        for _ in range(12):
            row = [rng.random() < 0.4 for _ in range(n)]
            c = sum(1 for combo, vals in rng.sample(sorted(need), min(len(need), 300)) if all(row[i] == bool(v) for i, v in zip(combo, vals)))
            if c > bestc:
                best, bestc = row, c
        rows.append(best)
        need = {(combo, vals) for combo, vals in need if not all(best[i] == bool(v) for i, v in zip(combo, vals))}
    return rows, len(need)


def row_args(rng, row):
    a = [rng.choice(LEVELS)]
    for on, f in zip(row, CODEGEN_FLAGS):
        if on:
            if f[0] == "--collapsed-range-length" and "--collapsed-range-length" in a:
                continue
            a += f
    return a


def api_tu(name, res):
    """a translation unit that uses every documented name of the generated API"""
    m = nm.nmfu()
    PF = m.ProgramFlag
    fl = res.flags
    cc = res.cctx
    U = name.upper()
    L = ['#include "%s.h"' % name, "#include <stddef.h>"]
    A = L.append
    if fl[PF.HOOK_GLOBAL]:
        for h in cc.hooks:
            A("void %s_%s_hook(%s_state_t *state, uint8_t inval) { (void)state; (void)inval; }" % (name, h, name))
    else:
        for h in cc.hooks:
            A("static void my_%s(struct %s_state *state, uint8_t inval) { (void)state; (void)inval; }" % (h, name))
    A("int use_api(const uint8_t *buf, size_t n) {")
    A("  %s_state_t st;" % name)
    A("  %s_result_t r = %s_start(&st);" % (name, name))
    if fl[PF.HOOK_PER_STATE] and not fl[PF.HOOK_GLOBAL]:
        for h in cc.hooks:
            A("  { %s_hook_t fp = my_%s; st.%s_hook = fp; }" % (name, h, h))
    if fl[PF.INCLUDE_USER_PTR]:
        A("  st.userptr = NULL;")
    if fl[PF.INDIRECT_START_PTR]:
        A("  const uint8_t *p = buf; r = %s_feed(&p, buf + n, &st);" % name)
    else:
        A("  r = %s_feed(buf, buf + n, &st);" % name)
    if fl[PF.EOF_SUPPORT]:
        A("  r = %s_end(&st);" % name)
    A("  switch (r) { case %s_OK: case %s_FAIL: case %s_DONE: break;" % (U, U, U))
    for c in cc.finish_codes:
        A("    case %s_FINISH_%s: break;" % (U, c))
    for c in cc.yield_codes:
        A("    case %s_YIELD_%s: break;" % (U, c))
    A("  }")
    T = m.OutputStorageType
    for o in cc.state_object_spec:
        if o.type == T.ENUM:
            A("  { %s_out_%s_t e = st.c.%s; switch (e) {" % (name, o.name, o.name))
            for v in o.enum_values:
                A("    case %s_%s_%s: break;" % (U, o.name.upper(), v.upper()))
            A("  } }")
        elif o.type == T.STR:
            A("  { unsigned long len = st.%s_counter; (void)len; (void)st.c.%s[0]; }" % (o.name, o.name))
        elif o.type == T.RAW:
            A("  { unsigned long len = st.%s_counter; (void)len; (void)sizeof(st.c.%s); }" % (o.name, o.name))
        elif o.type == T.BOOL:
            A("  { bool b = st.c.%s; (void)b; }" % o.name)
        else:
            A("  { long long v = (long long)st.c.%s; (void)v; }" % o.name)
    if fl[PF.DYNAMIC_MEMORY]:
        A("  %s_free(&st);" % name)
    A("  return (int)r;\n}")
    return "\n".join(L) + "\n"


def check_one(d, idx, res):
    """returns list of (tool-tag, stderr) failures and the set of defined symbols"""
    name = res.name
    base = os.path.join(d, "c%d" % idx)
    os.makedirs(base, exist_ok=True)
    with open(os.path.join(base, name + ".h"), "w") as f:
        f.write(res.header)
    with open(os.path.join(base, name + ".c"), "w") as f:
        f.write(res.source)
    with open(os.path.join(base, "hdr_only.c"), "w") as f:
        f.write('#include "%s.h"\n#include "%s.h"\n' % (name, name))
    with open(os.path.join(base, "hdr_only.cpp"), "w") as f:
        f.write('#include "%s.h"\n#include "%s.h"\nint main() { %s_state_t s; (void)s; return 0; }\n' % (name, name, name))
    with open(os.path.join(base, "api.c"), "w") as f:
        f.write(api_tu(name, res))
    cmds = [
        ("gcc-c99", ["gcc", "-std=c99"] + WARN + ["-c", name + ".c", "-o", "a1.o"]),
        ("gcc-c11", ["gcc", "-std=c11"] + WARN + ["-c", name + ".c", "-o", "a2.o"]),
        ("clang", ["clang"] + WARN + ["-c", name + ".c", "-o", "a3.o"]),
        ("header-c", ["gcc", "-std=c99"] + WARN + ["-c", "hdr_only.c", "-o", "h1.o"]),
        ("header-c++", ["g++"] + WARN + ["-c", "hdr_only.cpp", "-o", "h2.o"]),
        ("api-use", ["gcc", "-std=c11"] + WARN + ["-c", "api.c", "-o", "api.o"]),
    ]
    fails = []
    for tag, cmd in cmds:
        r = subprocess.run(cmd, cwd=base, capture_output=True, text=True)
        if r.returncode != 0:
            fails.append((tag, r.stderr[:1500]))
    syms = set()
    if os.path.exists(os.path.join(base, "a1.o")):
        r = subprocess.run(["nm", "--defined-only", "a1.o"], cwd=base, capture_output=True, text=True)
        for ln in r.stdout.splitlines():
            parts = ln.split()
            if len(parts) == 3 and parts[1] == "T":
                syms.add(parts[2])
    return fails, syms


def classify(tag, err):
    m = re.search(r"label ['‘](\w+?)_?\d*['’] used but not defined", err)
    if m:
        return "undefined-label:" + m.group(1)
    m = re.search(r"use of undeclared label '(\w+?)_?\d*'", err)
    if m:
        return "undefined-label:" + m.group(1)
    m = re.search(r"error: (.*)", err)
    msg = m.group(1) if m else err[:80]
    msg = re.sub(r"['‘’`][^'‘’`]*['‘’`]", "X", msg)
    msg = re.sub(r"\d+", "N", msg)[:70]
    return "%s:%s" % (tag, msg)


def run(ctx: Ctx):
    rng = ctx.rng
    quick = ctx.quick
    n_prog = 16 if quick else 36
    n_rows = 20 if quick else 90
    d = mktmp()
    m = nm.nmfu()
    PF = m.ProgramFlag
    progs = []
    stg = 0
    for i in range(n_prog):
        pool, st = work.generated_pool(rng, 1, profile=PROFILES[i % len(PROFILES)])
        stg += st["generated"]
        progs += [(ast, src, args, "gen") for ast, src, args, r in pool]
    for fn, src, args, seeds in work.corpus():
        b = fn.rsplit("/", 1)[-1]
        if quick and b in ("gtfs-realtime.nmfu", "ttc_rdf.nmfu", "http.nmfu"):
            continue
        progs.append((None, src, [a for a in args if not a.startswith("-O")], b))
    rows, uncovered = covering_rows(rng, n_rows, 2 if quick else 3)
    ctx.extra["covering_rows"] = len(rows)
    ctx.extra["uncovered_%s_way_combinations" % (2 if quick else 3)] = uncovered
    jobs = []
    idx = 0
    for pi, (ast, src, args, label) in enumerate(progs):
        my_rows = rows if label == "gen" else rng.sample(rows, min(len(rows), 3 if quick else 10))
        for row in my_rows:
            a = args + row_args(rng, row)
            if "-funsafe-string-indexing" in a and ast is not None and c03.has_idx(ast):
                a.remove("-funsafe-string-indexing")     # unsafe indexing is a promise that indices are in range; generated ones are not
            r = nm.compile_source(src, a, name="prs")
            ctx.count("compilations")
            if not r.ok:
                ctx.count("rejected_under_options")
                continue
            jobs.append((idx, r, src, a, label))
            idx += 1
    ctx.count("accepted_program_option_pairs", len(jobs))
    with ThreadPoolExecutor(max_workers=6) as ex:
        results = list(ex.map(lambda j: check_one(d, j[0], j[1]), jobs))
    for (i, r, src, a, label), (fails, syms) in zip(jobs, results):
        ctx.evaluations += 1
        ctx.count("compiler_invocations", 6)
        ctx.nontrivial((src, tuple(a)))
        for tag, err in fails:
            ctx.count("compile_failures")
            ctx.violation("c11:" + classify(tag, err), "%s rejects the emitted code: %s" % (tag, err.strip().splitlines()[0][:200] if err.strip() else "?"),
                          {"nmfu_source": src, "nmfu_args": a, "tool": tag, "stderr": err, "label": label})
        if syms:
            want = {"prs_start", "prs_feed"}
            if r.flags[PF.EOF_SUPPORT]:
                want.add("prs_end")
            if r.flags[PF.DYNAMIC_MEMORY]:
                want.add("prs_free")
            have = {s for s in syms if s.startswith("prs_")}
            if have != want:
                ctx.violation("c11:entry-points:%s" % ("missing" if want - have else "extra"),
                              "object defines %s, documented API for these options is %s" % (sorted(have), sorted(want)),
                              {"nmfu_source": src, "nmfu_args": a})
            ctx.count("nm_checks")
    if jobs:
        i, r, src, a, label = jobs[0]
        ctx.sample({"args": a, "label": label, "source_head": src[:300], "tools": ["gcc-c99", "gcc-c11", "clang", "header-c", "header-c++", "api-use", "nm"]})
    ctx.floor("accepted_program_option_pairs", 80 if quick else 1500)
    ctx.floor("nm_checks", 60)
    ctx.rule = ("case = (accepted program, option row); rows form a greedy random covering array (pairs quick / triples thorough) over %d "
                "code-generation flags x -O level; each case = 6 compiler invocations + nm; distinct by (source, options); every case is "
                "non-trivial (real compilers on real output)" % len(CODEGEN_FLAGS))
    ctx.assumptions += ["gcc 12 / clang 14 / g++ as installed are the oracle for 'valid C'", "-Wno-unused-label as the property allows"]


def replay(path):
    d = json.load(open(path))
    r = nm.compile_source(d["nmfu_source"], d["nmfu_args"], name="prs")
    print("compile:", r.status, r.exc_type)
    if not r.ok:
        return 1
    tmp = mktmp()
    fails, syms = check_one(tmp, 0, r)
    for tag, err in fails:
        print(tag, err[:800])
    print(sorted(syms))
    return 1 if fails else 0
