"""C08 - a case statement runs exactly the clause whose pattern matched.

SUT: emitted C of single-case programs whose clauses carry distinct markers (finish codes, hooks, yield codes in the
greedy/lexer form). Oracle: the reference interpreter's case rule - all clause patterns advance in parallel as derivative
automata; non-greedy: the completed pattern's clause; greedy: consume while any pattern continues, then the highest
priority among those matching what was consumed; else / no-match exactly when no pattern can take the byte, starting at it.
"""
import json

from .. import gen, nm, rx, work
from ..common import Ctx
from . import c01

LEVEL = "exploration"
N = gen.N
ALPHA = [ord(c) for c in "abc01"]


def pattern(rng, g, avoid_first):
    r = rng.random()
    if r < 0.5:
        n = rng.choice([1, 2, 2, 3])
        bs = bytes([rng.choice([b for b in ALPHA if b not in avoid_first] or ALPHA)] + [rng.choice(ALPHA) for _ in range(n - 1)])
        return N("lit", bs=bs, form="i" if rng.random() < 0.15 else "s")
    for _ in range(6):
        tree = rx.gen(rng, ALPHA, depth=rng.choice([1, 2]), classes=False)
        sem = rx.to_sem(tree)
        if sem in (rx.EMPTY, rx.EPS) or rx.nullable(sem):
            continue
        if rng.random() < 0.6 and rx.first(sem) & avoid_first:
            continue
        return N("rx", tree=tree, binary=False)
    return N("lit", bs=bytes([rng.choice(ALPHA)]), form="s")


def case_program(rng, greedy):
    g = gen.Gen(rng)
    ncl = rng.randrange(2, 6)
    clauses = []
    used_first = set()
    fcodes = ["F%d" % i for i in range(ncl + 1)]
    ycodes = ["Y%d" % i for i in range(ncl + 1)] if greedy else []
    hooks = ["h%d" % i for i in range(ncl + 1)]
    has_else = rng.random() < 0.5
    for i in range(ncl):
        preds = []
        for _ in range(rng.choice([1, 1, 2, 3])):
            p = pattern(rng, g, used_first if rng.random() < 0.7 else set())
            preds.append(p)
            used_first |= set(rx.first(gen.pat_sem(p))) - {rx.END}
        open_ = any(gen.is_open(gen.pat_sem(p)) for p in preds)
        if greedy:
            body = [N("yield", code=ycodes[i])]
            r_ = rng.random()
            if r_ < 0.2:
                body.insert(0, N("assign", var="m", e=N("num", v=i + 1, text=str(i + 1))))
            elif r_ < 0.4:
                # a marker that is not timing-strict, alone in its clause: only the clause that is selected may leave it
                # (known finding K9 when a shorter, losing one does)
                body = [N("assign", var="m", e=N("num", v=i + 1, text=str(i + 1)))]
        else:
            style = rng.random()
            if open_:
                body = [N("match", p=N("lit", bs=b";", form="s")), N("finish", code=fcodes[i])]
            elif style < 0.5:
                body = [N("finish", code=fcodes[i])]
            elif style < 0.8:
                body = [N("hook", name=hooks[i]), N("match", p=N("lit", bs=b";", form="s")), N("finish", code=fcodes[i])]
            else:
                body = [N("assign", var="m", e=N("num", v=i + 1, text=str(i + 1))), N("match", p=N("lit", bs=b";", form="s")), N("hook", name=hooks[i])]
        if has_else and i == ncl - 1 and rng.random() < 0.4:
            preds.append("else")
            has_else = False
        prio = rng.choice([None, 0, 1, 2, 3]) if greedy else None
        clauses.append(N("clause", preds=preds, body=body, prio=prio))
    if has_else:
        eb = [N("yield", code=ycodes[ncl]), N("match", p=N("rx", tree=("any",), binary=False))] if greedy else \
             [N("match", p=N("rx", tree=("any",), binary=False)), N("finish", code=fcodes[ncl])]
        clauses.insert(rng.randrange(len(clauses) + 1), N("clause", preds=["else"], body=eb, prio=None))
    case = N("case", clauses=clauses, greedy=greedy)
    outs = [N("out", name="m", typ="int", signed=None, width=None, default=0)]
    if greedy:
        body = [N("loop", label=None, body=[case])]
    else:
        body = [case, N("match", p=N("lit", bs=b"#", form="s"))]
        if rng.random() < 0.3:
            body = [N("try", body=[case, N("match", p=N("lit", bs=b"#", form="s"))], reasons=["nomatch"], handler=[N("hook", name=hooks[ncl]), N("match", p=N("lit", bs=b"!", form="s"))])]
    args = ["-fyield-support"] if greedy else []
    return N("prog", outs=outs, hooks=hooks, fcodes=fcodes, ycodes=ycodes, macros=[], body=body, args=args)


def prefix_loop_shapes(rng, n):
    """lexer loops whose greedy case has a clause that is a proper prefix of another one (same clause or a different one), with
    action-only / yielding / empty bodies: the body's final state can go on matching when the iteration is already complete"""
    out = []
    for _ in range(n):
        w = bytes(rng.choice(b"abc") for _ in range(rng.choice([1, 1, 2])))
        v = bytes(rng.choice(b"abc") for _ in range(rng.choice([1, 2])))
        lit = lambda b: N("lit", bs=b, form="s")
        # (a timing-strict marker alone in a clause that another clause extends must be refused by the compiler; accepted, it would fire for the loser)
        bodies = [lambda i: [N("assign", var="m", e=N("num", v=i + 1, text=str(i + 1)))], lambda i: [], lambda i: [N("yield", code="Y%d" % i)],
                  lambda i: [N("assign", var="m", e=N("num", v=i + 1, text=str(i + 1))), N("yield", code="Y%d" % i)], lambda i: [N("hook", name="h%d" % i)],
                  lambda i: [N("hook", name="h%d" % i), N("assign", var="m", e=N("num", v=i + 1, text=str(i + 1)))]]
        other = bytes([rng.choice([c for c in b"abcd" if c != w[0]])]) + bytes(rng.choice(b"ab") for _ in range(rng.choice([0, 1])))
        if rng.random() < 0.5:
            clauses = [N("clause", preds=[lit(w + v), lit(w)], body=rng.choice(bodies[:2])(0), prio=None)]
        else:
            clauses = [N("clause", preds=[lit(w)], body=rng.choice(bodies)(0), prio=rng.choice([None, 1])),
                       N("clause", preds=[lit(w + v)], body=rng.choice(bodies)(1), prio=rng.choice([None, 2]))]
        clauses.append(N("clause", preds=[lit(other)], body=rng.choice(bodies)(2), prio=None))
        if rng.random() < 0.3:
            clauses.append(N("clause", preds=["else"], body=[N("yield", code="Y3"), N("match", p=N("rx", tree=("any",), binary=False))], prio=None))
        rng.shuffle(clauses)
        case = N("case", clauses=clauses, greedy=True)
        outs = [N("out", name="m", typ="int", signed=None, width=None, default=0)]
        out.append(N("prog", outs=outs, hooks=["h0", "h1", "h2"], fcodes=[], ycodes=["Y0", "Y1", "Y2", "Y3"], macros=[], body=[N("loop", label=None, body=[case])], args=["-fyield-support"]))
    return out


def open_token_shapes(rng, n):
    """lexers whose tokens are open-ended (ended by lookahead) and adjacent: the byte that ends one token starts the next one, so the yield
    for a token is due on a byte that is not consumed yet. Alphabet a b 0 1 C and space, classes disjoint per clause"""
    out = []
    for _ in range(n):
        letters = [97, 98, 48, 49, 67, 32]
        rng.shuffle(letters)
        k = rng.choice([2, 3])
        groups = [letters[i::k] for i in range(k)]
        clauses = []
        for i, g in enumerate(groups):
            items = [("ch", c) for c in g]
            form = rng.random()
            if form < 0.55:
                tree = ("op", ("set", items, False), "+")
            elif form < 0.75:
                tree = ("seq", [("ch", g[0]), ("op", ("set", items, False), "*")])
            elif form < 0.9 and i == k - 1:
                others = [("ch", c) for gg in groups[:i] for c in gg]
                tree = ("op", ("set", others, True), "+")        # inverted class: everything the other clauses do not start with
            else:
                tree = ("seq", [("op", ("set", items, False), "+"), ("op", ("ch", g[-1]), "?")])
            body = [N("yield", code="Y%d" % i)]
            if rng.random() < 0.25:
                body.insert(0, N("assign", var="m", e=N("num", v=i + 1, text=str(i + 1))))
            clauses.append(N("clause", preds=[N("rx", tree=tree, binary=False)], body=body, prio=None))
        greedy = rng.random() < 0.6
        if rng.random() < 0.35:
            # two tokens built on inverted classes: A = p[^xy]+ leaves on x or y (listed explicitly), B = [^y-c]+ lists y (and more) but not x:
            # the symbols A leaves on do not share one transition in the start state
            x, y = rng.choice([(48, 49), (49, 48), (48, 50)])
            pfx = rng.choice([97, 98])
            a_tree = ("seq", [("ch", pfx), ("op", ("set", [("ch", x), ("ch", y)], True), "+")])
            b_tree = ("op", ("set", [("ch", y), ("range", 97, 99)] + ([("ch", 50)] if 50 not in (x, y) and rng.random() < 0.5 else []), True), "+")
            clauses = [N("clause", preds=[N("rx", tree=b_tree, binary=False)], body=[N("yield", code="Y0")], prio=None),
                       N("clause", preds=[N("rx", tree=a_tree, binary=False)], body=[N("yield", code="Y1")], prio=None)]
            rng.shuffle(clauses)
        elif rng.random() < 0.3:
            clauses.append(N("clause", preds=["else"], body=[N("yield", code="Y3"), N("match", p=N("rx", tree=("any",), binary=False))], prio=None))
        case = N("case", clauses=clauses, greedy=greedy)
        outs = [N("out", name="m", typ="int", signed=None, width=None, default=0)]
        out.append(N("prog", outs=outs, hooks=[], fcodes=[], ycodes=["Y0", "Y1", "Y2", "Y3"], macros=[], body=[N("loop", label=None, body=[case])], args=["-fyield-support"]))
    return out


def run(ctx: Ctx):
    rng = ctx.rng
    quick = ctx.quick
    n = 70 if quick else 900
    pool = []
    tried = 0
    rejected = {}
    kinds = {"greedy": 0, "plain": 0, "with_else": 0, "multi_pattern_clause": 0, "regex_clause": 0}
    while len(pool) < n and tried < n * 8:
        tried += 1
        greedy = rng.random() < 0.4
        ast = case_program(rng, greedy)
        src = gen.prog_src(ast)
        args = ast.args + [rng.choice(["-O0", "-O1", "-O2", "-O3"])] + ([] if greedy else ["-findirect-start-ptr"])
        r = nm.compile_source(src, args, name="p0", keep=False)
        if r.ok:
            pool.append((ast, src, args, None))
            kinds["greedy" if greedy else "plain"] += 1
            case = ast.body[0] if ast.body[0].kind == "case" else ast.body[0].body[0]
            kinds["with_else"] += any("else" in cl.preds for cl in case.clauses)
            kinds["multi_pattern_clause"] += any(len([p for p in cl.preds if p != "else"]) > 1 for cl in case.clauses)
            kinds["regex_clause"] += any(p != "else" and p.kind == "rx" for cl in case.clauses for p in cl.preds)
        else:
            k = (r.exc_type or r.status) + ": " + (r.exc_msg or "")[:50].split("\n")[0]
            rejected[k] = rejected.get(k, 0) + 1
    c01.add_shapes(ctx, rng, pool, prefix_loop_shapes(rng, 24 if quick else 300), "prefix_loop_shapes_accepted")
    c01.add_shapes(ctx, rng, pool, open_token_shapes(rng, 12 if quick else 150), "open_token_shapes_accepted", levels=("-O0", "-O2", "-O3", "-O3"))
    ctx.cov.update({"case_programs_generated": tried, "case_programs_accepted": len(pool)})
    ctx.extra["accepted_shapes"] = kinds
    ctx.extra["rejections"] = rejected
    stats_before = dict(ctx.cov)
    c01.run_pool(ctx, rng, quick, pool, "c08", nwalk=25 if quick else 60, enum_budget=260 if quick else 1500, cap=260 if quick else 900, pointers=True)
    ctx.floor("runs_checked", 5000 if quick else 100000)
    ctx.floor("yield_events", 200)
    ctx.inconclusive_if(kinds["greedy"] < 5 or kinds["with_else"] < 5 or kinds["regex_clause"] < 5, "case shapes under-represented: %s" % kinds)
    ctx.rule = ("case = (single-case program: 2-5 clauses, 1-3 patterns each over a 5-letter alphabet with shared prefixes, literals / "
                "case-insensitive / regexes, else alone or combined, priorities; greedy ones inside a yield loop, input): every string up to a "
                "length bound over the byte classes + guided walks; the marker observed (finish code, hook, yield code with its offset) must be "
                "the one the parallel-automata rule selects; non-trivial = an event was observed; distinct by (source, input)")
    ctx.assumptions += ["the case rule of vf/ri.py (greedy: keep consuming while any pattern can continue, as the property states)"]


def replay(path):
    return c01.replay(path)
