"""C04 - feed and end always return: no input makes a generated parser spin.

SUT: emitted C (ASan+UBSan) with SanitizerCoverage trace-pc-guard as a per-call step meter. Monitor: when a call exceeds
its edge bound the driver looks for an exact configuration repeat (same guard, same state-struct bytes, same input
position) - deterministic code in an identical configuration cannot terminate - and escapes with longjmp; yield
re-invocations are checked for a repeated (state, position) as well. Workload: round-trip program shapes, long
overflowing inputs, and forced (state, byte, data) configurations from a cycle finder over the compiled machine's
non-consuming moves (fall-through, condition branches, out-of-space redirects, breaks); the finder only produces workload.
"""
import json

from .. import cdrv, gen, nm, trace, work
from ..common import Ctx

LEVEL = "exploration"

ROUNDTRIP = {
    "w": {"try_": 16, "loop": 14, "appendm": 16, "appendc": 8, "optional": 8, "case": 10, "if_": 6, "hook": 4, "delete": 4, "match": 16, "wait": 3, "finish": 1},
    "str_caps": (1, 1, 2, 2, 3), "depth": 3, "strict_after_open": 0.1,
}

HAND = [
    ("out str[3] s;\nparser {\n loop {\n  try {\n   s += /a+/;\n   \"b\";\n  }\n  catch (outofspace) {\n  }\n }\n}\n", [], [b"aaa", b"aab", b"aaaaaaab"]),
    ("out str[2] s;\nparser {\n loop {\n  try {\n   \"x\";\n   s += [65];\n  }\n  catch (outofspace) {\n  }\n }\n}\n", [], [b"xx", b"xxxxx"]),
    ("out str[2] s;\nparser {\n loop {\n  try {\n   s += /a+/;\n   \"b\";\n  }\n  catch (outofspace) {\n   delete s;\n  }\n }\n}\n", [], [b"aaaaab", b"aab"]),
    ("out int x = 0;\nparser {\n loop {\n  case {\n   \"a\" -> { x = 1; }\n   else -> { if x == 1 { break; } else { \"b\"; } }\n  }\n }\n \"z\";\n}\n", [], [b"aaz", b"bz", b"abz"]),
]


def else_cycle_shapes():
    """a loop whose case falls into its else clause, which ends in an inner case whose else clause (shared with a pattern or not) only
    acts: the way round consumes nothing for the bytes neither case lists, while other bytes listed *somewhere* take different
    transitions (the compile-time loop check has to follow symbols one by one)"""
    out = []
    inner_else = ['"c 2"i, else -> {\n      n = [0 * 3 + (97 & m)];\n     }', 'else -> {\n      n = 0;\n     }', '"q", else -> {\n     }']
    outer = ['/[\\da\\W]{2}/ -> {\n    b = true;\n   }\n   "ec;" -> {\n    h();\n   }\n   "c0" -> {\n    n = 1;\n    break;\n   }',
             '/[a-f]+;/ -> {\n    h();\n   }\n   "0" -> {\n    break;\n   }', '"x" -> {\n    break;\n   }']
    for ie in inner_else:
        for ou in outer:
            for pre in ('if m != m + 3 {\n     h();\n    }\n    ', ''):
                src = ("out int n = 7;\nout int{unsigned} m = 0;\nout bool b = true;\nhook h;\nparser {\n loop {\n  case {\n   else -> {\n    %scase {\n     \"a\" -> {\n      \"c\"i;\n      h();\n     }\n     %s\n"
                       "     \"0e\" -> {\n      h();\n     }\n    }\n   }\n   %s\n  }\n }\n h();\n}\n") % (pre, ie, ou)
                out.append((src, [], [b"\x01A", b"A", b"zz", b"ac", b"c 2", b"\xff\xff\xff", b"0e!", b"!!"]))
    return out


def must_not_spin_shapes():
    """loop bodies that can complete without consuming a byte, with a data-dependent exit: accepted or not, feed must return"""
    nonconsuming = [
        'case {\n   "a" -> { n = [n + 1]; }\n   else -> { }\n  }',
        'try {\n   "a";\n   n = [n + 1];\n  }\n  catch (nomatch) {\n  }',
        'try {\n   s += /a+/;\n  }\n  catch {\n  }',
        'optional {\n   "a";\n  }',
        'case {\n   "a" -> { }\n   else -> { s += [65]; }\n  }',
        'try {\n   case {\n    "a" -> { }\n    "b" -> { n = 1; }\n   }\n  }\n  catch (nomatch) {\n   h();\n  }',
    ]
    # appends that overflow inside the handler that was entered because of an overflow (must go outwards, never back to the same handler)
    handlers = [
        'try {\n   s += /a+/;\n   "b";\n  }\n  catch (outofspace) {\n   s += [65];\n   "c";\n  }',
        'try {\n   s += /a+/;\n  }\n  catch (outofspace) {\n   s += /a+/;\n  }\n  "b";',
        'try {\n   try {\n    s += /a+/;\n    "b";\n   }\n   catch (outofspace) {\n    s += [66];\n    "a";\n   }\n  }\n  catch {\n   h();\n   "c";\n  }',
        'try {\n   "a";\n   s += [65];\n   s += [66];\n   s += [67];\n  }\n  catch (outofspace) {\n   s += [68];\n   "d";\n  }',
        # the way back exists for some values of the variables only (condition point / conditional action in the handler)
        'try {\n   s += /a+/;\n   "b";\n  }\n  catch (outofspace) {\n   if n == 9 {\n    "q";\n   }\n   elif n == 4 {\n    wait "b";\n   }\n  }',
        'try {\n   s += /a+/;\n   "b";\n  }\n  catch (outofspace) {\n   if n == 9 {\n    finish;\n   }\n  }',
        'try {\n   s += /a+/;\n   "b";\n  }\n  catch (outofspace) {\n   if n == 0 {\n    n = 1;\n   }\n   else {\n    "a";\n   }\n  }',
    ]
    exits = ['if n == 3 {\n   break;\n  }', 'if s.len == 2 {\n   break;\n  }', 'if n > 100 {\n   finish;\n  }', 'if n == 3 {\n   break;\n  }\n  else {\n   n = [n];\n  }', '']
    out = []
    for body in nonconsuming:
        for ex in exits:
            src = "out int n = 0;\nout str[3] s;\nhook h;\nparser {\n loop {\n  %s\n  %s\n }\n \"z\";\n}\n" % (body, ex)
            out.append((src, [], [b"ab", b"b", b"aab", b"aaab", b"aaaaaaaab", b"zz"]))
            src2 = "out int n = 0;\nout str[3] s;\nhook h;\nparser {\n \"k\";\n loop {\n  %s\n  %s\n }\n \"z\";\n}\n" % (ex, body) if ex else None
            if src2:
                out.append((src2, [], [b"kab", b"kb", b"kaaab", b"kz"]))
    for body in handlers:
        for wrap in ("out int n = 0;\nout str[3] s;\nhook h;\nparser {\n loop {\n  %s\n  if n == 3 {\n   break;\n  }\n }\n \"z\";\n}\n",
                     "out int n = 0;\nout str[3] s;\nhook h;\nparser {\n  %s\n \"z\";\n}\n"):
            out.append((wrap % body, [], [b"aaab", b"aaaaaac", b"aaaaaaaaaab", b"aaaac", b"aaaad", b"abz", b"aaaaaaaaaaaaaaaaaaaa"]))
    # handlers whose way back consumes for some of the bytes the append takes and not for others: the round trip exists for a
    # single byte value only (which one the compiler looks at first must not matter)
    cls = "abcde"
    for z in cls:
        rest = cls.replace(z, "")
        for hb in ('optional {\n    /[%s]/;\n   }\n   n = [n + 1];' % rest,
                   'case {\n    /[%s]/ -> { n = [n + 1]; }\n    else -> { }\n   }' % rest,
                   'try {\n    /[%s]/;\n   }\n   catch (nomatch) {\n    n = [n + 1];\n   }' % rest):
            body = 'try {\n   s += /[%s]+/;\n   ",";\n  }\n  catch (outofspace) {\n   %s\n  }' % (cls, hb)
            src = "out int n = 0;\nout str[3] s;\nhook h;\nparser {\n loop {\n  %s\n  if n == 9 {\n   break;\n  }\n }\n \"z\";\n}\n" % body
            zz = z.encode()
            out.append((src, [], [b"ab" + zz * 3 + b",", zz * 6, b"ab" + rest[:1].encode() * 4 + zz + b",", b"a,b,", rest.encode() + zz + zz]))
    return out


def cycle_candidates(m, dfa, max_c=40):
    """(state index, symbol) pairs from which a cycle of non-consuming moves is reachable. Workload only."""
    Else, End = m.DFTransition.Else, m.DFTransition.End
    idx = {s: i for i, s in enumerate(dfa.states)}
    reps = work.dfa_alphabet(dfa)
    syms = [chr(b) for b in reps] + [End]
    out = []
    for sym in syms:
        graph = {}
        for s in dfa.states:
            succ = set()
            if isinstance(s, m.DFConditionPoint):
                ts = list(s.transitions)
            else:
                try:
                    t = s[sym]
                except Exception:
                    t = None
                ts = [t] if t is not None else []
            for t in ts:
                for a in t.actions:
                    try:
                        mode = a.get_target_override_mode()
                        if mode in (m.ActionOverrideMode.MAY_GOTO_TARGET, m.ActionOverrideMode.ALWAYS_GOTO_OTHER):
                            for tg in a.get_target_override_targets():
                                if tg in idx:
                                    succ.add(tg)
                    except Exception:
                        pass
                if t.is_fallthrough and t.target in idx:
                    succ.add(t.target)
            graph[s] = succ
        # nodes on a cycle: iterative DFS colouring
        color = {}
        on_cycle = set()

        def dfs(u):
            stack = [(u, iter(graph[u]))]
            color[u] = 1
            path = [u]
            while stack:
                node, it = stack[-1]
                for v in it:
                    if color.get(v, 0) == 0:
                        color[v] = 1
                        path.append(v)
                        stack.append((v, iter(graph[v])))
                        break
                    if color.get(v) == 1:
                        on_cycle.update(path[path.index(v):])
                else:
                    color[node] = 2
                    stack.pop()
                    path.pop()
        for s in dfa.states:
            if color.get(s, 0) == 0:
                dfs(s)
        for s in on_cycle:
            out.append((idx[s], sym))
            if len(out) >= max_c:
                return out
    return out


def classify_spin(m, p, state, sym_byte):
    """mechanism of a confirmed spin, from the compiled machine: does the cycle go through an out-of-space redirect?"""
    try:
        dfa = p.meta["dfa"]
        s = dfa.states[state]
        for st in dfa.states:
            for t in st.transitions:
                for a in t.actions:
                    for sub in a.all_subactions():
                        if isinstance(sub, (m.AppendTo, m.AppendCharTo)):
                            return "outofspace-redirect-cycle"
        return "fallthrough-cycle"
    except Exception:
        return "unclassified"


def run(ctx: Ctx):
    rng = ctx.rng
    quick = ctx.quick
    m = nm.nmfu()
    n_rt = 36 if quick else 400
    n_gen = 12 if quick else 150
    pool, st = work.generated_pool(rng, n_rt, profile=ROUNDTRIP, args_fn=lambda rng, ast: [rng.choice(["-O0", "-O1", "-O3"]), "-findirect-start-ptr"])
    pool2, st2 = work.generated_pool(rng, n_gen, profile={"yields": True, "w": {"yield_": 10, "loop": 10, "try_": 10}},
                                     args_fn=lambda rng, ast: [rng.choice(["-O0", "-O1", "-O3"])])
    pool3, st3 = work.generated_pool(rng, n_gen, profile={"eof": True, "w": {"try_": 12, "wait": 6, "loop": 8}},
                                     args_fn=lambda rng, ast: [rng.choice(["-O0", "-O1", "-O3"]), "-findirect-start-ptr"])
    entries = [(ast, src, args, None) for ast, src, args, r in pool + pool2 + pool3]
    for src, args, ins in HAND + must_not_spin_shapes() + else_cycle_shapes():
        entries.append((None, src, args + ["-findirect-start-ptr"], ins))
    ctx.cov.update({"programs_generated": st["generated"] + st2["generated"] + st3["generated"], "programs_accepted": len(entries)})
    for chunk in work.chunked(entries, 28):
        progs = []
        for i, (ast, src, args, hand_inputs) in enumerate(chunk):
            r = nm.compile_source(src, args, name="p%d" % i)
            if not r.ok:
                ctx.count("hand_program_rejected" if hand_inputs else "recompile_rejected")
                continue
            p = cdrv.Prog(r, meta={"src": src, "args": args, "dfa": r.dctx.dfa, "hand": hand_inputs is not None})
            ins, reps, L = work.inputs_for(r, rng, ast, nwalk=20 if quick else 50, enum_budget=40 if quick else 200, maxlen=30)
            if len(ins) > (60 if quick else 200):
                ins = rng.sample(ins, 60 if quick else 200)
            ins = list(ins)
            for w in ins[:8]:
                ins.append((w * 30)[:200])        # long repetitive inputs fill every buffer
            for b in reps[:6]:
                ins.append(bytes([b]) * 40)
            if hand_inputs:
                ins = list(hand_inputs) + ins
            p.meta["inputs"] = ins
            p.meta["cands"] = cycle_candidates(m, r.dctx.dfa, 30 if quick else 200)
            p.meta["strs"] = [o for o in p.outs if o["kind"] == "str"]
            progs.append(p)
        if not progs:
            continue
        batch = cdrv.Batch(progs).build()
        runs = []
        for p in batch.live:
            for ii, bs in enumerate(p.meta["inputs"]):
                lines = ["QUIETOK 1", "BOUND 20000", "START", "FEED1 " + cdrv.hexs(bs)]
                if p.eof:
                    lines.append("ENDCOPY")
                if rng.random() < 0.3:
                    lines = ["QUIETOK 1", "BOUND 200000", "START", "FEED " + cdrv.hexs(bs)] + (["ENDCOPY"] if p.eof else [])
                runs.append(("%s.i%d" % (p.name, ii), p, lines))
            # forced configurations from the candidate finder: every string full / empty
            for ci, (k, sym) in enumerate(p.meta["cands"]):
                for full in (True, False):
                    lines = ["QUIETOK 1", "BOUND 20000", "START", "FORCE %d" % k]
                    for o in p.meta["strs"]:
                        n = (o["size"] - (1 if o["term"] else 0)) if full else 0
                        lines.append("SETSTR %s %s" % (o["name"], cdrv.hexs(b"a" * n)))
                    if isinstance(sym, str):
                        lines.append("FEED %02x" % ord(sym))
                    elif p.eof:
                        lines.append("END")
                    else:
                        continue
                    runs.append(("%s.c%d%s" % (p.name, ci, "f" if full else "e"), p, lines))
            # every (state, byte class) with every string full / empty, for small machines (bounded per program)
            reps = work.dfa_alphabet(p.meta["dfa"])[:10]
            grid = [(k, b) for k in range(p.nstates) for b in reps]
            if len(grid) > (120 if quick else 600):
                grid = rng.sample(grid, 120 if quick else 600)
            for gi, (k, b) in enumerate(grid):
                full = rng.random() < 0.6
                lines = ["QUIETOK 1", "BOUND 20000", "START", "FORCE %d" % k]
                for o in p.meta["strs"]:
                    n = (o["size"] - (1 if o["term"] else 0)) if full else 0
                    lines.append("SETSTR %s %s" % (o["name"], cdrv.hexs(b"a" * n)))
                lines.append("FEED %02x" % b)
                runs.append(("%s.g%d" % (p.name, gi), p, lines))
            # end() from every state
            if p.eof:
                for k in range(p.nstates):
                    runs.append(("%s.e%d" % (p.name, k), p, ["QUIETOK 1", "START", "FORCE %d" % k, "END"]))
        res = batch.run(runs, timeout=1500)
        ctx.count("binaries")
        if batch.guards:
            ctx.count("cov_edges_hit", batch.guards[0]); ctx.count("cov_edges_total", batch.guards[1])
        for rid, run_ in res.items():
            p = run_.prog
            ctx.evaluations += 1
            kind = rid.split(".")[1][0]
            ctx.count({"i": "input_runs", "c": "forced_candidate_runs", "e": "forced_end_runs", "g": "forced_state_byte_runs"}[kind])
            ctx.count("calls_metered", run_.calls or sum(1 for e in run_.events if e[0] == "R"))
            mx = max([e[6] for e in run_.events if e[0] == "R"] or [0])
            ctx.extra["max_edges_in_one_call"] = max(ctx.extra.get("max_edges_in_one_call", 0), mx)
            if kind in "cg" or any(e[0] == "R" and e[3] != 0 for e in run_.events):
                ctx.nontrivial((p.meta["src"], tuple(run_.script)))
            if run_.abort and run_.abort[0] == "watchdog":
                ctx.violation("c04:wall-clock-watchdog", "a run did not finish within the watchdog although the step meter did not fire",
                              {"nmfu_source": p.meta["src"], "nmfu_args": p.meta["args"], "script": run_.script})
                continue
            for sp in run_.spins():
                _, callno, edges, repeat, state = sp
                mech = classify_spin(m, p, state, None)
                how = {1: "exact configuration repeat inside one call", 0: "edge bound exceeded 50x without a repeat",
                       3: "yield re-invocation repeats (state, position)", 2: "more than 64 yields at one position"}.get(repeat, str(repeat))
                ctx.count("spins_confirmed" if repeat in (1, 3) else "spins_suspect")
                ctx.violation("c04:spin:%s:%s" % (mech, "forced" if kind in "ceg" else "by-input"),
                              "%s never returns: %s (call %d, machine state %d, %d edges)" % ("end()" if kind == "e" else "feed()", how, callno, state, edges),
                              {"nmfu_source": p.meta["src"], "nmfu_args": p.meta["args"], "script": run_.script, "state": state, "repeat": repeat})
        if len(ctx.samples) < 3 and batch.live:
            p = batch.live[0]
            ctx.sample({"program": p.meta["src"][:500], "cycle_candidates": [(k, str(sy)) for k, sy in p.meta["cands"][:6]], "inputs": [x[:20].decode("latin-1") for x in p.meta["inputs"][:4]]})
        batch.cleanup()
    ctx.floor("calls_metered", 8000 if quick else 150000)
    ctx.floor("input_runs", 2000)
    ctx.floor("forced_state_byte_runs", 2000)
    ctx.rule = ("case = one metered run: (program, input) fed byte-wise or whole, or a forced (machine state, byte or end, every string full / "
                "empty) configuration proposed by the non-consuming-move cycle finder, or end() forced from every state; non-trivial = forced "
                "configuration or a run reaching a non-OK code; distinct by (source, script)")
    ctx.assumptions += ["spin verdict = exact configuration repeat (sound) or 50x the per-call edge bound (20000 edges for one byte); wall-clock only as watchdog",
                        "the cycle finder proposes workload only; every verdict comes from executing the emitted C"]


def replay(path):
    d = json.load(open(path))
    r = nm.compile_source(d["nmfu_source"], d["nmfu_args"], name="p0")
    print("compile:", r.status, r.exc_type)
    if not r.ok:
        return 0
    p = cdrv.Prog(r)
    b = cdrv.Batch([p]).build()
    res = b.run([("x", p, d["script"])])
    for e in res["x"].events[-6:]:
        print(e)
    b.cleanup()
    return 1 if res["x"].spins() else 0
