"""C20 - compilation is a pure function of source and options.

SUT: the real compiler run (a) alone in a fresh process, (b) after random other compilations in the same process,
(c) in fresh processes under different PYTHONHASHSEED values and a random allocation preamble. Monitor: identical
accept/reject verdicts, and strict equality of the per-byte traces of the emitted parsers (all variants linked into one
sanitized binary); emitted text is compared after address normalisation as a fast path only.
"""
import json
import os
import re
import subprocess
import sys
from concurrent.futures import ThreadPoolExecutor

from .. import cdrv, diff, gen, nm, work
from ..common import Ctx, VERIF
from . import c12

LEVEL = "exploration"

PROFILE = {"w": {"case": 12, "gcase": 3, "hook": 10, "loop": 7, "try_": 8}, "regex_prob": 0.5}


def worker(jobs, hashseed, preamble=None):
    env = dict(os.environ)
    env["PYTHONHASHSEED"] = str(hashseed)
    payload = json.dumps({"verif": VERIF, "jobs": jobs, "preamble": preamble})
    r = subprocess.run([sys.executable, "-B", os.path.join(VERIF, "vf", "c20_worker.py")], input=payload, capture_output=True, text=True,
                       env=env, timeout=900, cwd=VERIF)
    if r.returncode != 0:
        raise RuntimeError("worker failed: " + r.stderr[-2000:])
    return json.loads(r.stdout)


def norm_text(s):
    s = re.sub(r"0x[0-9a-f]{6,}", "ADDR", s)
    s = re.sub(r"skipaction_\d+", "skipaction_N", s)
    return s


def run(ctx: Ctx):
    rng = ctx.rng
    quick = ctx.quick
    n_gen = 14 if quick else 90
    nvar = 6 if quick else 16
    pool, st = work.generated_pool(rng, n_gen, profile=PROFILE)
    ypool, st2 = work.generated_pool(rng, 4 if quick else 20, profile=dict(PROFILE, yields=True, w=dict(PROFILE["w"], yield_=8)))
    items = [(ast, src, args + [rng.choice(["-O0", "-O1", "-O2", "-O3"])], "gen") for ast, src, args, r in pool + ypool]
    # macros are where identity-keyed bookkeeping matters most
    for fn, src, args, seeds in work.corpus():
        b = fn.rsplit("/", 1)[-1]
        if quick and b in ("gtfs-realtime.nmfu", "ttc_rdf.nmfu", "http.nmfu"):
            continue
        if quick and rng.random() < 0.5:
            continue
        items.append((None, src, args, b))
    # rejected programs: the verdict must be reproducible too
    rejected = []

    def on_reject(ast, src, args, r):
        if r.status == "rejected" and len(rejected) < (10 if quick else 60):
            rejected.append((src, args, r.exc_type))
    for _ in range(12):     # (the share of rejected programs varies with the seed: generate until there are enough)
        work.generated_pool(rng, 6 if quick else 40, profile={"strict_after_open": 0.6, "depth": 3}, on_reject=on_reject)
        if len(rejected) >= (10 if quick else 60):
            break
    others = [(src, args) for _, src, args, _ in items]

    # plan worker processes: each process = (hashseed, preamble, job list)
    plans = []       # (hashseed, preamble, jobs, [(case_idx, var_idx, how)])
    for ci, (ast, src, args, label) in enumerate(items):
        for vi in range(nvar):
            name = "p%d" % (ci * 32 + vi)
            kind = vi % 3 if vi else 0
            if vi == 0:
                plans.append((0, None, [{"src": src, "args": args, "name": name, "report": True}], [(ci, vi, "fresh process, PYTHONHASHSEED=0")]))
            elif kind == 1:
                hs = rng.randrange(1, 10 ** 6)
                plans.append((hs, rng.randrange(10 ** 6), [{"src": src, "args": args, "name": name, "report": True}],
                              [(ci, vi, "fresh process, PYTHONHASHSEED=%d, allocation preamble" % hs)]))
            else:
                hs = rng.choice([0, 0, rng.randrange(1, 10 ** 6)])
                k = rng.randrange(1, 8 if quick else 30)
                hist = [{"src": s2, "args": a2, "name": "h%d" % j} for j, (s2, a2) in enumerate(rng.choice(others) for _ in range(k))]
                if kind == 2 and rng.random() < 0.5:
                    hist.append({"src": src, "args": args, "name": "dup"})      # the same program compiled just before
                plans.append((hs, None, hist + [{"src": src, "args": args, "name": name, "report": True}],
                              [(ci, vi, "after %d other compilations in the process, PYTHONHASHSEED=%d" % (len(hist), hs))]))
    rej_plans = []
    for ri, (src, args, exc) in enumerate(rejected):
        for vi in range(3):
            hs = rng.randrange(10 ** 6)
            hist = [{"src": s2, "args": a2, "name": "h%d" % j} for j, (s2, a2) in enumerate(rng.choice(others) for _ in range(rng.randrange(0, 4)))]
            rej_plans.append((hs, rng.randrange(10 ** 6), hist + [{"src": src, "args": args, "name": "r", "report": True}], (ri, exc)))

    # verdict stability of overlap-heavy clause sets (greedy priorities, regex alternations: where set / id() order could decide)
    from . import c09
    vplans = []
    vsrcs = []
    for vi in range(24 if quick else 200):
        prog, flat = c09.overlapping_case(rng, greedy=rng.random() < 0.75)
        if rng.random() < 0.5:
            # three arms that can finish together, one unique top priority and ties below it
            for cl in prog.body[0].body[0].clauses if prog.body[0].kind == "loop" else []:
                cl.prio = rng.choice([1, 1, 2])
        vsrcs.append((gen.prog_src(prog), prog.args))
    # several arms finishing together: one unique top priority, ties among the losers (the order in which the finishing arms are
    # visited must not matter)
    letters = "abcdefghijklmnopqrstuvwxyz"
    for ti in range(6 if quick else 40):
        c1, c2, x1, y1, d1, e1 = rng.sample(letters, 6)
        arms = ["/[%s%s][%s%s]/" % (c1, x1, c2, y1), "/%s[%s%s0-9]/" % (c1, c2, d1), "/[%s%s0-9]%s/" % (c1, e1, c2)]
        rng.shuffle(arms)
        low = rng.choice([0, 1])
        body = "".join("  prio %d %s -> {\n   kind = %d;\n  }\n" % (low, a, i + 1) for i, a in enumerate(arms))
        body += "  prio %d \"%s%s\" -> {\n   kind = 9;\n  }\n" % (low + rng.choice([1, 2]), c1, c2)
        vsrcs.append(("out int kind = 0;\nparser {\n greedy case {\n" + body + " }\n \";\";\n}\n", []))
    for src, args in vsrcs:
        for k in range(4):
            hs = 0 if k == 0 else rng.randrange(1, 10 ** 6)
            hist = [{"src": s2, "args": a2, "name": "h%d" % j} for j, (s2, a2) in enumerate(rng.choice(vsrcs) for _ in range(rng.randrange(0, 3)))] if k >= 2 else []
            vplans.append((hs, rng.randrange(10 ** 6) if k else None, hist + [{"src": src, "args": args, "name": "v", "report": True}], src))
    with ThreadPoolExecutor(max_workers=6) as ex:
        outs = list(ex.map(lambda pl: worker(pl[2], pl[0], pl[1]), plans))
        vouts = list(ex.map(lambda pl: worker(pl[2], pl[0], pl[1]), vplans))
        rej_outs = list(ex.map(lambda pl: worker(pl[2], pl[0], pl[1]), rej_plans))
    verd = {}
    for (hs, pre, jobs, src), out in zip(vplans, vouts):
        verd.setdefault(src, []).append((out[0]["status"], out[0]["exc_type"], hs, len(jobs) - 1))
    for src, lst in verd.items():
        ctx.evaluations += 1
        ctx.count("verdict_only_programs")
        ctx.nontrivial(("verdict", src))
        if len({a for a, b, _, _ in lst}) == 1 and len({b for a, b, _, _ in lst}) > 1:
            ctx.count("same_verdict_other_diagnostic")      # two reasons to reject, reported in set order: the verdict is the same
        if len({a for a, b, _, _ in lst}) > 1:
            ctx.violation("c20:verdict-differs:clause-set", "same source and options, different verdicts across processes: %s" % lst,
                          {"nmfu_source": src, "nmfu_args": jobs[-1]["args"], "verdicts": lst})
    ctx.count("worker_processes", len(vplans))
    ctx.count("worker_processes", len(plans) + len(rej_plans))
    ctx.count("compilations_in_workers", sum(len(pl[2]) for pl in plans) + sum(len(pl[2]) for pl in rej_plans))

    # verdict stability
    for (hs, pre, jobs, (ri, exc)), out in zip(rej_plans, rej_outs):
        ctx.evaluations += 1
        ctx.count("rejected_program_recompilations")
        got = out[0]
        if got["status"] == "rejected" and got["exc_type"] != exc:
            ctx.count("same_verdict_other_diagnostic")
            if len(ctx.extra.setdefault("other_diagnostic_examples", [])) < 3:
                ctx.extra["other_diagnostic_examples"].append({"first": exc, "now": got["exc_type"], "hashseed": hs, "nmfu_source": jobs[-1]["src"][:600]})
        if got["status"] != "rejected":
            ctx.violation("c20:verdict-differs:rejected-program", "a program rejected with %s is now %s/%s (hashseed %d, after %d other compilations)" %
                          (exc, got["status"], got["exc_type"], hs, len(jobs) - 1), {"nmfu_source": jobs[-1]["src"], "nmfu_args": jobs[-1]["args"], "hashseed": hs, "history_len": len(jobs) - 1})
    by_case = {}
    for (hs, pre, jobs, tags), out in zip(plans, outs):
        (ci, vi, how) = tags[0]
        by_case.setdefault(ci, []).append((vi, how, out[0], hs))
    cases = []
    for ci, lst in sorted(by_case.items()):
        ast, src, args, label = items[ci]
        lst.sort()
        statuses = {(d["status"], d["exc_type"]) for _, _, d, _ in lst}
        ctx.evaluations += 1
        if len(statuses) > 1:
            ctx.violation("c20:verdict-differs", "same source and options: verdicts %s" % sorted(statuses),
                          {"nmfu_source": src, "nmfu_args": args, "variants": [(how, d["status"], d["exc_type"]) for _, how, d, _ in lst]})
            continue
        if lst[0][2]["status"] != "accepted":
            ctx.count("cases_rejected_consistently")
            continue
        texts = {norm_text(d["prog"]["source"].replace(d["name"], "P").replace(d["name"].upper(), "P")) for _, _, d, _ in lst}
        ctx.count("cases_text_identical" if len(texts) == 1 else "cases_text_differs")
        wr = nm.compile_source(src, args, name="w0")
        if not wr.ok:
            continue
        progs = [cdrv.Prog.from_dict(d["prog"], meta={"src": src, "args": args, "label": label, "how": how, "hashseed": hs}) for _, how, d, hs in lst]
        cases.append(diff.Case(label, progs, ast=ast, meta={"workload_result": wr}))

    def compare(ref_items, items_, p0, p, bs):
        d = c12.compare(ref_items, items_, p0, p, bs)
        if d is None:
            return None
        key = d[0].split(":")
        return ("c20:behaviour-differs:" + (key[2] if len(key) > 2 else "?"), d[1] + " | reference: %s | this: %s" % (p0.meta.get("how"), p.meta.get("how")))
    diff.run_cases(ctx, cases, compare, rng, quick, per_batch=30)
    ctx.cov.update({"programs_generated": st["generated"] + st2["generated"], "programs": len(items)})
    ctx.floor("pairs_compared", 2000 if quick else 30000)
    ctx.floor("worker_processes", 60)
    ctx.floor("rejected_program_recompilations", 9)
    ctx.rule = ("case = (program, options); each case is compiled %d times: alone in a fresh process, in fresh processes with random "
                "PYTHONHASHSEED and an allocation preamble, and after 1-30 other compilations in one process; verdicts must agree and the "
                "emitted parsers, linked into one binary, must give identical per-byte traces on generated inputs; non-trivial = trace has "
                "an event; distinct by (source, input)" % nvar)
    ctx.assumptions += ["fresh-process, hash-seed-0 compilation is the reference", "textual differences of the emitted C are not flagged"]


def replay(path):
    d = json.load(open(path))
    print(json.dumps({k: v for k, v in d.items() if k not in ("c_source",)}, indent=1)[:4000])
    return 0
