"""C18 - the compiler always terminates with code or a diagnosed error.

SUT: the real compiler pipeline (options -> syntax -> ParseCtx -> DfaCompileCtx -> CodegenCtx) run in-process on
generated sources. Monitor: exception class escaping (anything but NMFUError / LarkError / option RuntimeError, or a
str(e) that raises, is internal) and a PY_START step budget as the logical clock for "never hangs".
"""
import json
import re

from .. import gen, nm, work
from ..common import Ctx

LEVEL = "exploration"

CHAOS_STMTS = [
    'undefined_var = 3;', 'i0 = undefined_name;', 'h0 = 3;', 'i0();', 'nosuchhook();', 'i0 += "a";', 'b0 += /a/;', 's0 = 5;',
    's0 = [i0 + 1];', 'i0 = "abc";', 'r0 = "abc";', 'r0 = 5;', 'e0 = 7;', 'e0 = true;', 'b0 = EA;', 'i0 = EA;', 'e0 = NOSUCH;',
    'i0 = [s0];', 'i0 = [b0 + 1];', 'b0 = [i0 && b0];', 'i0 = [$nosuch];', 'i0 = [i0.len];', 'i0 = [i0[0]];', 'i0 = [s0[b0]];',
    's0 += [b0];', 's0 += ["a"];', 's0 += end;', 's0 += (end "a");', 'delete i0;', 'delete nosuch;', 'break;', 'break nosuchloop;',
    'finish NOSUCH;', 'yield NOSUCH;', 'yield F0;', 'finish Y0;', 'wait end;', '"a\\qb";', '"\\u1234";', '"\\x4";', '"\\xzz";', '"";', '""i;', '""b;',
    '"abc"b;', '"0 1 2"b;', '"zz"b;', '//;', '/(a|)/;', '/a{3,1}/;', '/a{0}/;', '/[z-a]/;', '/a**/;', '/()/;', 'b/[10-05]/;', 'b/fff/;',
    '/a{150}/;', '/(a{12}){12}/;', '/[^\\w\\W]/;', '/.{0}/;', 'i0 = 99999999999999999999999999;', 'i0 = 0x;', 'i0 = [1 / 0];',
    'i0 = [1 << 100];', "i0 = ['ab'];", "i0 = '\\q';", "i0 = [$last];", 'if $last == 3 { "a"; }', 'if "a" { "b"; }', 'if s0 { "b"; }',
    'if e0 { "b"; }', 'if i0 { }', 'optional { i0 = 1; }', 'optional { h0(); "a"; }', 'optional { optional { "a"; } }', 'optional { if i0 == 1 { "a"; } }',
    'optional { loop { "a"; } }', 'optional { wait "a"; }', 'optional { try { "a"; } catch { } }', 'optional { case { else -> {} } }',
    'loop { }', 'loop { i0 = 1; }', 'loop { h0(); }', 'loop { break; }', 'loop { optional { "a"; } }', 'loop { loop { "a"; } }',
    'loop x { loop x { "a"; break x; } }', 'foreach { "a"; } do { "b"; }', 'foreach { i0 = 1; } do { h0(); }', 'foreach { "a"; } do { finish; }',
    'foreach { "a"; } do { break; }', 'foreach { "a"; } do { if i0 == 1 { "q"; } }', 'foreach { foreach { "a"; } do { h0(); } } do { h0(); }',
    'try { } catch { }', 'try { i0 = 1; } catch { }', 'try { "a"; } catch (bogus) { }', 'try { finish; } catch { "a"; }', 'try { "a"; } catch (nomatch, nomatch) { }',
    'case { }', 'case { else -> { } }', 'case { else -> { } else -> { } }', 'case { "a" -> { } "a" -> { } }', 'case { "a", "a" -> { } }',
    'case { "" -> { } }', 'case { else, else -> { "a"; } }', 'case { end -> { } }', 'case { /a*/ -> { } "b" -> { } }', 'case { i0 -> { } }',
    'greedy case { "a" -> { } "a" -> { } }', 'greedy case { prio 1 "a" -> { } prio 1 /a/ -> { } }', 'greedy case { else -> { } }',
    'greedy case { prio 99999999999 "a" -> {} }', 'greedy case { prio -1 "a" -> {} }', 'm0();', 'm0(1, 2, 3, 4, 5, 6);', 'nosuchmacro(1);',
    'mrec();', 'margs("a", i0);', 'margs(i0, "a");', 'margs(h0, h0);', 'margs(nosuch, /a/);', 'mloop(nosuch);', 'mhook(i0);', 'mcode(NOPE);', 'mmacro(h0);',
    'mmacro(mmacro);', 'mexpr("str");', 'mexpr(/a/);', 'mexpr([i0 + "a"]);', 'mout(5);', 'mout([i0]);',
]

CHAOS_DECLS = [
    'out int{unsigned, size 16} w16;', 'out int{size 3} w3;', 'out int{size 0} w0;', 'out int{size -1} wn;', 'out int{signed, unsigned} su;',
    'out int{size 1, size 2} s12;', 'out int i0;', 'out bool i0;', 'out str[0] z0;', 'out str[-4] zneg;', 'out str[1] z1;', 'out unterminated str[0] uz;',
    'out str[99999999999] zbig;', 'out str[0x10] zhex;', 'out str[4] sd = 5;', 'out str[4] sd2 = true;', 'out str[4] sd3 = "\\q";', 'out str[4] sd4 = "ab"i;',
    'out str[4] sd5 = "zz"b;', 'out int id = "abc";', 'out int id2 = EA;', 'out int id3 = 1.5;', 'out bool bd = 5;', 'out bool bd2 = "x";',
    'out enum{A,B} ed = A;', 'out enum{A,B} ed2 = 1;', 'out enum{A,A} dup;', 'out enum{finish,x} finish;', 'out enum{P,Q} E0;', 'out raw{uint8_t} rd = 5;',
    'out raw{nosuchtype} rq;', 'out raw{int} ri;', 'hook h0;', 'hook i0;', 'finishcode F0;', 'finishcode OK, FAIL, DONE;', 'yieldcode YX;',
    'finishcode A, A;', 'macro m0() { }', 'macro m0() { "dup"; }', 'macro mrec() { mrec(); }', 'macro mrec2() { mrec3(); }', 'macro mrec3() { mrec2(); }',
    'macro margs(out a, match b) { a = 1; b; }', 'macro mloop(loop l) { break l; }', 'macro mhook(hook h) { h(); }', 'macro mcode(finishcode c) { finish c; }',
    'macro mmacro(macro m) { m(); }', 'macro mexpr(expr e) { i0 = e; }', 'macro mout(out o) { o = 1; }', 'macro mdup(out a, out a) { }',
    'macro mshadow(out i0) { i0 = 1; }', 'macro mycode(yieldcode c) { yield c; }',
]

OPTION_POOL = [[], ["-O0"], ["-O2"], ["-O3"], ["-feof-support"], ["-fyield-support"], ["-fhook-per-state"], ["-fno-hook-global"],
               ["-fallocate-str-space-dynamic-on-demand"], ["-fdelete-string-free-memory"], ["-fstrings-as-u8"], ["-funsafe-string-indexing"],
               ["-fstrict-done-token-generation"], ["-fuse-packed-enums"], ["-fno-remove-inaccesible-states"], ["-fno-simplify-else-conditions"],
               ["--collapsed-range-length", "1"], ["--max-shortcircuit-fallthrough", "0"], ["-fdebug-strict-program-data-errors"],
               ["-fcodepoints-in-errors"], ["-fverbose-ambig-errors"], ["-fzero-len-input-support"], ["-findirect-start-ptr"], ["-finclude-user-ptr"]]


# small programs around constructs that once made the compiler die (each must give code or a diagnostic); compiled under three option rows
DECL = "out int i0 = 0;\nout int i1 = 0;\nout bool b0 = false;\nout enum{EA,EB} e0;\nout str[4] s0;\nout raw{uint32_t} r0;\nhook h0;\nfinishcode F0;\n"
ONCE_FATAL = [
    'parser {\n i0 = 1;\n}\n', 'parser {\n h0();\n i0 = 1;\n}\n',
    'parser {\n "\\q";\n}\n', 'parser {\n "\\xzz";\n}\n', 'parser {\n "\\x4";\n}\n', 'parser {\n "a\\u1234";\n}\n', 'parser {\n "a";\n i0 = \'\\q\';\n}\n',
    'parser {\n "a";\n r0 = "abc";\n}\n', 'parser {\n "a";\n i0 += "a";\n}\n', 'parser {\n "a";\n b0 += /a/;\n}\n', 'parser {\n "a";\n e0 += "a";\n}\n',
    'parser {\n "a";\n e0 = EZ;\n}\n', 'parser {\n "a";\n e0 = [EZ];\n}\n',
    'parser {\n case {\n  else -> { "a"; }\n }\n}\n', 'parser {\n "k";\n case {\n  else -> { }\n }\n}\n',
    'parser {\n optional {\n  if i0 == 1 { "a"; }\n }\n "b";\n}\n', 'parser {\n "k";\n optional {\n  h0();\n  "a";\n }\n "b";\n}\n',
    'parser {\n case {\n  "a" -> {\n   if i0 == 1 { i1 = 2; }\n   i0 = 3;\n  }\n  "b" -> { }\n }\n "z";\n}\n',
    'parser {\n case {\n  "a" -> {\n   if i0 == 1 { h0(); } else { i1 = 1; }\n   h0();\n   "q";\n  }\n }\n}\n',
    'parser {\n /a+/;\n if i0 == 1 { "a"; } else { "b"; }\n}\n', 'parser {\n /a+/;\n if i0 == 1 { "a"; } elif i0 == 2 { "c"; }\n "d";\n}\n',
    'parser {\n optional { "a"; }\n if i0 == 1 { "a"; } else { "b"; }\n}\n',
    'macro m0() { }\nparser {\n "a";\n m0();\n "b";\n}\n', 'macro m0() { }\nparser {\n m0();\n}\n',
    'parser {\n loop l1 {\n  loop {\n   "c";\n   if i0 == 1 { break; }\n  }\n  break l1;\n }\n "z";\n}\n',
    'parser {\n loop l1 {\n  loop {\n   "c";\n   if i0 == 1 { break l1; } else { break; }\n  }\n  "d";\n }\n "z";\n}\n',
    'parser {\n "a";\n b0 = [!(1000 + 3 == \'0\')];\n}\n', 'parser {\n "a";\n b0 = [2 * 3];\n}\n', 'parser {\n "a";\n e0 = [1 + 1];\n}\n',
    'parser {\n case {\n  "a" -> {\n   if i0 == 1 { i1 = 2; }\n  }\n  "b" -> { }\n }\n i0 = 3;\n "z";\n}\n',
    'parser {\n "k";\n case {\n  "a" -> {\n   if i0 == 1 { i1 = 2; } else { i1 = 3; }\n  }\n  else -> { }\n }\n h0();\n "z";\n}\n',
    'parser {\n /a+/;\n if i0 == 1 { "a"; }\n}\n', 'parser {\n /a+/;\n if i0 == 1 { "a"; } else { h0(); }\n}\n',
    'parser {\n loop {\n  /a+/;\n  if i0 == 1 { "a"; } else { break; }\n }\n}\n',
    'parser {\n loop l1 {\n  loop {\n   "c";\n   if i0 == 1 { break; }\n  }\n  break l1;\n }\n}\n',
    'parser {\n s0 += [i0];\n wait "0";\n}\n', 'parser {\n s0 += [i0];\n s0 += [i1];\n loop {\n  wait "0";\n }\n}\n',
    'parser {\n try {\n  s0 += [i0];\n  wait "q";\n }\n catch (outofspace) {\n  "b";\n }\n wait "0";\n}\n',
]
ONCE_FATAL_DECLS = ["out int{unsigned, size 16} x;\n", "out int{signed, size 3} x;\n", "out int{size 0} x;\n"]


def classify(r, src):
    fn = r.exc_where or "?"
    return "internal:%s@%s" % (r.exc_type, fn)


def chaos_program(rng, base_profile):
    g = gen.Gen(rng, base_profile)
    ast = g.program()
    # sprinkle chaos statements at random block positions
    blocks = [ast.body]

    def collect(s):
        for attr in ("body", "handler", "do", "orelse"):
            b = getattr(s, attr, None)
            if isinstance(b, list):
                blocks.append(b)
        if s.kind == "if":
            for _, b in s.branches:
                blocks.append(b)
        if s.kind == "case":
            for cl in s.clauses:
                blocks.append(cl.body)
    gen.walk(ast.body, collect)
    k = rng.choice([0, 1, 1, 1, 2, 3])
    for _ in range(k):
        b = rng.choice(blocks)
        b.insert(rng.randrange(len(b) + 1), gen.N("raw", text=rng.choice(CHAOS_STMTS)))
    ast.rawdecls = [rng.choice(CHAOS_DECLS) for _ in range(rng.choice([0, 0, 1, 2, 3]))]
    # the macros the chaos statements refer to exist most of the time
    if rng.random() < 0.7:
        ast.rawdecls += [d for d in CHAOS_DECLS if d.startswith("macro m") and "dup" not in d and rng.random() < 0.8]
    # structural chaos
    r = rng.random()
    if r < 0.05:
        ast.body = [s for s in ast.body if s.kind in gen.ACTION_KINDS or s.kind == "raw"] or [gen.N("hook", name="h0")]
    elif r < 0.08:
        ast.body = [gen.N("raw", text=rng.choice(CHAOS_STMTS))]
    return ast


def run(ctx: Ctx):
    rng = ctx.rng
    n = 350 if ctx.quick else 12000
    steps = []
    unresolved = []
    # phase 0: calibrate the step budget on well-formed programs
    cal = []
    for _ in range(25):
        ast = gen.Gen(rng).program()
        r = nm.compile_source(gen.prog_src(ast), ast.args, budget=10 ** 9, keep=False, wall=300)
        if r.status in ("budget", "wallclock"):
            unresolved.append({"nmfu_source": gen.prog_src(ast), "nmfu_args": list(ast.args), "why": r.status + " during calibration"})
            continue
        cal.append(r.steps)
    cal.sort()
    median = cal[len(cal) // 2] if cal else 100000
    budget = max((100 if ctx.quick else 300) * median, 4_000_000)
    second_chances = []
    slow_log = []
    ctx.extra["step_budget_py_start_events"] = budget
    ctx.extra["median_steps_wellformed"] = median
    classes = {}
    stages = {}
    profiles = [None, {"yields": True, "w": {"yield_": 8}}, {"eof": True}, {"w": {"gcase": 8}}, {"depth": 4, "strict_after_open": 0.5}]

    def one(src, args, origin):
        ctx.evaluations += 1
        import time as _t
        _t0 = _t.time()
        r = nm.compile_source(src, args, budget=budget, keep=False, wall=60 if ctx.quick else 300)
        if _t.time() - _t0 > 4:
            slow_log.append((round(_t.time() - _t0, 1), r.status, r.steps, origin, ctx.evaluations))
        classes[r.status] = classes.get(r.status, 0) + 1
        key = (r.status, r.exc_type, r.stage)
        stages[str(key)] = stages.get(str(key), 0) + 1
        if r.status in ("rejected",) and r.exc_type != "LarkError":
            ctx.nontrivial(("rej", r.exc_type, (r.exc_msg or "")[:40]))
        if r.status == "accepted":
            ctx.nontrivial(("acc", src))
        if r.status == "internal":
            ctx.violation("c18:" + classify(r, src), "internal %s in %s: %s" % (r.exc_type, r.tb or r.exc_where, (r.exc_msg or "")[:160]),
                          {"nmfu_source": src, "nmfu_args": args, "origin": origin, "traceback_tail": r.tb})
        elif r.status in ("budget", "wallclock"):
            # second chance with a larger budget: a slow-but-finishing compilation is not a hang. nmfu's regex minimisation is a naive
            # partition refinement (polynomial, but minutes for automata of 10^4 states), so single slow cases are expected; they stay
            # unresolved (inconclusive for that case) when the larger budget / the watchdog runs out as well
            if len(second_chances) >= (1 if ctx.quick else 4):
                unresolved.append({"nmfu_source": src, "nmfu_args": args, "why": "no second chance left"})
                ctx.count("slow_unresolved")
                return r
            second_chances.append(1)
            r2 = nm.compile_source(src, args, budget=budget * (5 if ctx.quick else 10), keep=False, wall=90 if ctx.quick else 1800)
            if r2.status in ("budget", "wallclock"):
                unresolved.append({"nmfu_source": src, "nmfu_args": args, "why": r2.status + " at the second chance"})
                ctx.count("slow_unresolved")
            else:
                ctx.count("slow_but_finished")
        return r

    for i in range(n):
        prof = rng.choice(profiles)
        ast = chaos_program(rng, prof) if rng.random() < 0.8 else gen.Gen(rng, prof).program()
        src = gen.prog_src(ast)
        args = list(ast.args)
        for _ in range(rng.choice([0, 1, 1, 2, 3])):
            args += rng.choice(OPTION_POOL)
        if rng.random() < 0.15:
            args = [a for a in args if a not in ("-feof-support", "-fyield-support")]
        r = one(src, args, "chaos")
        if i < 3:
            ctx.sample({"source": src[:600], "args": args, "status": r.status, "error": r.exc_type})
    # every chaos statement and declaration at least once, alone in a minimal program, under 3 option rows
    base_decl = ('out int i0 = 0;\nout bool b0 = false;\nout enum{EA,EB} e0;\nout str[4] s0;\nout raw{uint32_t} r0;\nhook h0;\nfinishcode F0;\n'
                 + "\n".join(d for d in CHAOS_DECLS if d.startswith("macro m") and "dup" not in d) + "\n")
    for stmt in CHAOS_STMTS:
        rows = (([], ""), (["-fyield-support", "-feof-support", "-O3"], "yieldcode Y0;\n"), (["-O0", "-fhook-per-state"], ""))
        shapes = ('parser {\n "k";\n %s\n "z";\n}\n', 'parser {\n %s\n}\n', 'parser {\n loop l0 {\n  "k";\n  %s\n  "z";\n  break;\n }\n}\n')
        if ctx.quick:
            rows, shapes = rows[:2], shapes[:2]
        for args, extra in rows:
            for shape in shapes:
                one(base_decl + extra + shape % stmt, args, "chaos-stmt")
    for src in ONCE_FATAL:
        for args in ([], ["-O3", "-feof-support"], ["-O0", "-fhook-per-state"]):
            one(DECL + src, args, "once-fatal")
    for decl in ONCE_FATAL_DECLS:
        one(decl + 'parser {\n "a";\n x = 1;\n}\n', [], "once-fatal")
    for decl in CHAOS_DECLS:
        for args in ([], ["-fyield-support", "-O3"]):
            one("out int i0;\nhook h0;\nfinishcode F0;\n" + decl + '\nparser {\n "a";\n}\n', args, "chaos-decl")
            one(decl + '\nparser {\n "a";\n}\n', args, "chaos-decl")
    if not ctx.quick:
        for big in ("/a{1000}/", "/(a|b|c){300}/", "/((a{10}){10}){10}/"):
            one('parser {\n %s;\n "z";\n}\n' % big, [], "huge-repeat")
    # the real command line (main() itself: option handling, recursion limit, the except clauses) on long chains and deep nesting
    import os
    import subprocess
    import tempfile
    repo = os.environ.get("VERIF_REPO", "/repo")
    cli = [("long-literal", 'parser {\n "%s";\n}\n' % ("ab" * 650), []), ("nested-groups", "parser {\n /%sa%s/;\n}\n" % ("(" * 120, ")" * 120), []),
           ("nested-blocks", "parser {\n" + "optional {\n" * 60 + '"a";\n' + "}\n" * 60 + '"b";\n}\n', []),
           ("undefined-name", 'parser {\n x = 1;\n "a";\n}\n', []), ("bad-option", 'parser {\n "a";\n}\n', ["-O9"])]
    if not ctx.quick:
        cli += [("long-repeat", 'parser {\n /a{1000}/;\n "z";\n}\n', []), ("long-binary", 'parser {\n "%s"b;\n}\n' % ("61 " * 2500), ["-O3"]),
                ("long-case", "parser {\n case {\n" + "".join(' "k%04d" -> {}\n' % i for i in range(1500)) + " }\n}\n", [])]
    # set / dict iteration order: the in-process runs above all share one hash seed; labels that mix END with byte values (inverted sets
    # in EOF-less and EOF builds, sets touching 0x00 / 0xff) through range collapsing in fresh processes under several seeds
    order_progs = [("inv-nul", 'parser {\n b/[^00-08]+/;\n "00"b;\n}\n'), ("inv-ff", 'out str[8] s;\nparser {\n s += b/[^f0-ff 00]+/;\n "ff"b;\n}\n'),
                   ("inv-text", 'hook h;\nparser {\n loop {\n  case {\n   /[^a-f0-9]/ -> { h(); }\n   /[a-f]+/ -> { }\n   end -> { break; }\n  }\n }\n}\n'),
                   ("inv-two", 'parser {\n b/[^00 01 02 03 fd fe ff]*/;\n b/[00-03]/;\n /[^\\n]*/;\n "\\n";\n}\n')]
    for hs in (range(1, 5) if ctx.quick else range(1, 13)):
        for label, src in (order_progs[:3] if ctx.quick else order_progs):
            cli.append(("hash-order:%s" % label, src, [rng.choice(["-O2", "-O3"])] + (["-feof-support"] if "end ->" in src or rng.random() < 0.3 else []), {"PYTHONHASHSEED": str(hs)}))
    with tempfile.TemporaryDirectory(prefix="c18cli") as td:
        for label, src, args, *envx in cli:
            env = dict(os.environ, **(envx[0] if envx else {}))
            fn = os.path.join(td, "prs.nmfu")
            open(fn, "w").write(src)
            ctx.evaluations += 1
            ctx.count("cli_runs")
            try:
                pr = subprocess.run(["/venv/bin/python", os.path.join(repo, "nmfu.py")] + args + [fn], cwd=td, capture_output=True, text=True, timeout=900, env=env)
            except subprocess.TimeoutExpired:
                unresolved.append({"nmfu_source": src, "nmfu_args": args, "why": "command line run exceeded the watchdog"})
                continue
            ctx.nontrivial(("cli", label))
            if "Traceback (most recent call last)" in pr.stderr:
                last = pr.stderr.strip().splitlines()[-1]
                ctx.violation("c18:cli-traceback:%s" % last.split(":")[0], "the command line died with a traceback on %s: %s" % (label, last[:160]),
                              {"nmfu_source": src[:3000], "nmfu_args": args, "stderr_tail": pr.stderr[-1500:], "label": label})
            elif pr.returncode != 0 and not pr.stderr.strip():
                ctx.violation("c18:cli-silent-failure", "exit status %d without a message on %s" % (pr.returncode, label), {"nmfu_source": src[:3000], "nmfu_args": args})
    ctx.cov.update({"status_" + k: v for k, v in classes.items()})
    ctx.extra["cases_over_4s"] = slow_log[:40]
    ctx.extra["unresolved_slow_cases"] = [dict(u, nmfu_source=u["nmfu_source"][:1500]) for u in unresolved[:5]]
    if len(unresolved) > (3 if ctx.quick else 25):
        # one pathological automaton is expected now and then; budget exhaustion on many inputs is a compiler that stopped terminating
        u = unresolved[0]
        ctx.violation("c18:hang:step-budget-exhausted-repeatedly", "%d compilations exceeded %d PY_START events (and the larger second budget)" % (len(unresolved), budget),
                      {"nmfu_source": u["nmfu_source"], "nmfu_args": u["nmfu_args"], "all": [x["why"] for x in unresolved]})
    ctx.extra["status_by_stage"] = dict(sorted(stages.items(), key=lambda kv: -kv[1])[:40])
    ctx.floor("status_accepted", 50)
    ctx.floor("status_rejected", 300)
    ctx.rule = ("case = (source, options): generated programs over every statement kind with semantic chaos statements/declarations "
                "spliced in (undefined and wrong-kind names, odd widths, unknown escapes, raw/enum/bool misuse, empty bodies, recursive "
                "macros, duplicates, huge repeats), plus each chaos item alone in minimal programs; non-trivial = reached the semantic "
                "stages (accepted, or rejected by something other than the Lark syntax check); distinct by (error class, message head) or source")
    ctx.assumptions += ["diagnosed = NMFUError subclasses, lark.LarkError, RuntimeError from option parsing - the classes main() handles",
                        "hang = step budget (PY_START events, 100x (quick) / 300x the median of well-formed programs, at least 4M) exceeded, again at the 5x / 10x "
                        "second chance, on more than 3 (quick) / 25 inputs of one run; single slow cases (naive polynomial regex minimisation) are "
                        "listed as unresolved, not as violations", "wall-clock watchdogs only abandon a case (inconclusive), never decide"]


def replay(path):
    d = json.load(open(path))
    r = nm.compile_source(d["nmfu_source"], d["nmfu_args"], keep=False)
    print(d["nmfu_source"])
    print(d["nmfu_args"])
    print("status:", r.status, r.exc_type, r.exc_msg, r.tb)
    return 1 if r.status == "internal" else 0
