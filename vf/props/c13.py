"""C13 - macros behave exactly like their textual expansion.

SUT: a generated program and its "macro-ized" twin (random statement slices extracted into macros, with parts of them
abstracted into parameters of every kind: out, hook, match, expr, loop, finishcode, yieldcode, macro), both compiled by the
real compiler and linked into one sanitized binary. Oracle: the original (inlined) program; verdicts must agree and per-byte
traces must be identical. Wrong-kind / wrong-count arguments must be diagnosed errors.
"""
import copy
import json

from .. import diff, gen, nm, work
from ..common import Ctx
from . import c12

LEVEL = "exploration"
N = gen.N


def blocks_of(stmts, acc):
    acc.append(stmts)
    for s in stmts:
        k = s.kind
        if k in ("loop", "optional"):
            blocks_of(s.body, acc)
        elif k == "try":
            blocks_of(s.body, acc)
            blocks_of(s.handler, acc)
        elif k == "foreach":
            blocks_of(s.body, acc)
        elif k == "if":
            for _, b in s.branches:
                blocks_of(b, acc)
            if s.orelse is not None:
                blocks_of(s.orelse, acc)
        elif k == "case":
            for cl in s.clauses:
                blocks_of(cl.body, acc)
    return acc


def rename_var_expr(e, old, new):
    if not isinstance(e, N):
        return
    if e.kind in ("var", "len", "idx") and e.name == old:
        e.name = new
    for a in ("a", "b", "e"):
        if isinstance(getattr(e, a, None), N):
            rename_var_expr(getattr(e, a), old, new)


def macroize(rng, ast):
    """returns (macro_ast, info) ; info counts parameter kinds used"""
    m = copy.deepcopy(ast)
    m.macros = []
    info = {}
    nm_ = 0
    for _round in range(rng.choice([1, 2, 2, 3])):
        blocks = [b for b in blocks_of(m.body, []) + [x for mac in m.macros for x in blocks_of(mac.body, [])] if b]
        if not blocks:
            break
        blk = rng.choice(blocks)
        i = rng.randrange(len(blk))
        j = min(len(blk), i + rng.choice([1, 1, 2, 3]))
        sl = blk[i:j]
        # a slice of do-blocks / clause heads is fine: they are statement lists too
        name = "mac%d" % nm_
        nm_ += 1
        params, args = [], []
        pn = [0]

        def newp():
            pn[0] += 1
            return "%s_p%d" % (name, pn[0])
        # collect candidates
        outs_used, hooks_used, pats, assigns, breaks, fins, yields, calls = set(), set(), [], [], [], [], [], []

        def visit(s):
            k = s.kind
            if k in ("assign", "assignstr", "appendm", "appendc", "delete"):
                outs_used.add(s.var)
            if k == "assign" and s.e.kind not in ("enumc",):
                assigns.append(s)
            if k == "hook":
                hooks_used.add(s.name)
            if k in ("match", "appendm", "wait") and s.p.kind != "ref":
                pats.append(s)
            if k == "break" and s.label:
                breaks.append(s)
            if k == "finish" and s.code:
                fins.append(s)
            if k == "yield":
                yields.append(s)
            if k == "call":
                calls.append(s)
        gen.walk(sl, visit)
        inner_loops = set()
        gen.walk(sl, lambda s: inner_loops.add(s.label) if s.kind == "loop" and s.label else None)
        choices = []
        if outs_used:
            choices.append("out")
        if hooks_used:
            choices.append("hook")
        if pats:
            choices.append("match")
        if assigns:
            choices.append("expr")
        if [b for b in breaks if b.label not in inner_loops]:
            choices.append("loop")
        if fins:
            choices.append("finishcode")
        if yields:
            choices.append("yieldcode")
        if calls:
            choices.append("macro")
        rng.shuffle(choices)
        choices = [c for c in choices if rng.random() < (0.9 if c in ("loop", "finishcode", "yieldcode", "expr") else 0.55)]
        for kind in choices:
            p = newp()
            info[kind] = info.get(kind, 0) + 1
            if kind == "out":
                v = rng.choice(sorted(outs_used))

                def ren(s):
                    if getattr(s, "var", None) == v:
                        s.var = p
                    if s.kind in ("assign", "appendc"):
                        rename_var_expr(s.e, v, p)
                    if s.kind == "if":
                        for c, _ in s.branches:
                            rename_var_expr(c, v, p)
                gen.walk(sl, ren)
                params.append(("out", p)); args.append(v)
            elif kind == "hook":
                h = rng.choice(sorted(hooks_used))

                def renh(s):
                    if s.kind == "hook" and s.name == h:
                        s.name = p
                gen.walk(sl, renh)
                params.append(("hook", p)); args.append(h)
            elif kind == "match":
                s = rng.choice(pats)
                params.append(("match", p)); args.append(s.p)
                s.p = N("ref", name=p, target=s.p)
            elif kind == "expr":
                s = rng.choice(assigns)
                if s.e.kind == "ref":
                    continue
                params.append(("expr", p)); args.append(s.e)
                s.e = N("ref", name=p, target=s.e)
            elif kind == "loop":
                b = rng.choice([b for b in breaks if b.label not in inner_loops])
                lab = b.label
                for bb in breaks:
                    if bb.label == lab:
                        bb.label = p
                params.append(("loop", p)); args.append(lab)
            elif kind == "finishcode":
                f = rng.choice(fins)
                code = f.code
                for ff in fins:
                    if ff.code == code:
                        ff.code = p
                params.append(("finishcode", p)); args.append(code)
            elif kind == "yieldcode":
                y = rng.choice(yields)
                code = y.code
                for yy in yields:
                    if yy.code == code:
                        yy.code = p
                params.append(("yieldcode", p)); args.append(code)
            elif kind == "macro":
                c = rng.choice(calls)
                if c.name.endswith(tuple("_p%d" % q for q in range(1, 9))):
                    continue
                target = c.name
                c.name = p
                params.append(("macro", p)); args.append(target)
        m.macros.append(N("macro", name=name, params=params, body=sl))
        blk[i:j] = [N("call", name=name, args=args)]
    return m, info


def reentrant_cases(rng, n):
    """(macro source, hand-inlined source): `wrap` is instantiated while an outer instantiation of `wrap` is still being expanded,
    with different arguments, and uses its parameters before and after the nested call"""
    out = []
    for _ in range(n):
        cnt = ["a", "b", "c"]
        hk = ["h0", "h1", "h2"]
        delim = [rng.choice([";", "!", ","]), rng.choice(["|", "#"]), rng.choice(["~", "$"])]
        leaf = rng.choice(['"x"', "/x+y/", '"xy"i'])
        levels = rng.choice([2, 2, 3])
        pre = rng.sample(["cnt = [cnt + 1];", "hk();", "other = [other + val];"], rng.randrange(1, 4))
        post = rng.sample(["hk();", "cnt = [cnt + val];", ""], rng.randrange(1, 3))
        body = " " + "\n ".join(pre) + "\n body();\n delim;\n " + "\n ".join(x for x in post if x) + "\n"
        macros = "macro wrap(macro body, out cnt, hook hk, match delim, expr val) {\n%s}\n" % body
        macros += "macro leaf() {\n %s;\n}\n" % leaf
        # level k calls wrap(level k+1, ...)
        names = ["lvl%d" % i for i in range(levels)]
        for i in range(1, levels):
            inner = names[i + 1] if i + 1 < levels else "leaf"
            macros += "macro %s() {\n wrap(%s, %s, %s, \"%s\", %d);\n}\n" % (names[i], inner, cnt[i], hk[i], delim[i], i + 2)
        top_inner = names[1] if levels > 1 else "leaf"
        decl = "out int a = 0;\nout int b = 0;\nout int c = 0;\nout int other = 0;\nhook h0;\nhook h1;\nhook h2;\n"
        msrc = decl + macros + "parser {\n \"<\";\n wrap(%s, a, h0, \"%s\", 2);\n \">\";\n}\n" % (top_inner, delim[0])

        def expand(i):
            c, h, d, v = cnt[i], hk[i], delim[i], i + 2
            sub = {"cnt": c, "hk": h, "val": str(v)}

            def inst(line):
                line = line.replace("cnt = [cnt + 1];", "%s = [%s + 1];" % (c, c)).replace("cnt = [cnt + val];", "%s = [%s + %d];" % (c, c, v))
                line = line.replace("other = [other + val];", "other = [other + %d];" % v).replace("hk();", "%s();" % h)
                return line
            inner = expand(i + 1) if i + 1 < levels else [" %s;" % leaf]
            return [" " + inst(x) for x in pre] + inner + [' "%s";' % d] + [" " + inst(x) for x in post if x]
        isrc = decl + "parser {\n \"<\";\n" + "\n".join(expand(0)) + "\n \">\";\n}\n"
        seeds = [b"<x" + "".join(reversed(delim[:levels])).encode() + b">", b"<xxy" + "".join(reversed(delim[:levels])).encode() + b">", b"<xy;>"]
        out.append((msrc, isrc, seeds))
    return out


def shadow_cases(rng, n):
    """(macro source, hand-inlined source): parameters named like global outputs / hooks / finish codes, called with those names in
    another order, directly and through a forwarding macro whose own parameters carry the callee's names in yet another order.
    Arguments are resolved in the caller's scope: a callee's own (earlier) parameters must never capture them."""
    OUTS, HOOKS, CODES = ["first", "second", "third"], ["ha", "hb", "hc"], ["FA", "FB", "FC"]
    TWO = ["first", "second", "ha", "hb", "FA", "FB"]            # parameter names of `two` = names of globals

    def two_body(a, b, h1, h2, c1, c2):
        return [" /\\d/;", " %s = [%s * 10 + ($last - 48)];" % (a, a), " %s();" % h1, ' ",";', " /\\d/;", " %s = [%s * 10 + ($last - 48)];" % (b, b), " %s();" % h2,
                " case {", '  "!" -> {', "   finish %s;" % c1, "  }", '  "?" -> {', "   finish %s;" % c2, "  }", '  ";" -> {', "  }", " }"]
    out = []
    for _ in range(n):
        decl = "".join("out int %s = 0;\n" % o for o in OUTS) + "".join("hook %s;\n" % h for h in HOOKS) + "finishcode %s;\n" % ", ".join(CODES)
        macros = "macro two(out first, out second, hook ha, hook hb, finishcode FA, finishcode FB) {\n" + "\n".join(two_body(*TWO)) + "\n}\n"
        # forwarding macro: its parameters are named like two's, in a shuffled order within each kind
        fo, fh = rng.sample(["first", "second"], 2), rng.sample(["ha", "hb"], 2)
        fwd_params = fo + fh
        inner_args = rng.sample(fo, 2) + rng.sample(fh, 2) + rng.sample(CODES, 2)
        macros += "macro fwd(out %s, out %s, hook %s, hook %s) {\n two(%s);\n}\n" % (fo[0], fo[1], fh[0], fh[1], ", ".join(inner_args))
        body_m, body_i = [], []
        for _c in range(rng.choice([2, 3])):
            if rng.random() < 0.5:
                args = rng.sample(OUTS, 2) + rng.sample(HOOKS, 2) + rng.sample(CODES, 2)
                body_m.append(" two(%s);" % ", ".join(args))
                body_i += two_body(*args)
            else:
                args = rng.sample(OUTS, 2) + rng.sample(HOOKS, 2)
                env = dict(zip(fwd_params, args))
                body_m.append(" fwd(%s);" % ", ".join(args))
                body_i += two_body(*[env.get(x, x) for x in inner_args])
        msrc = decl + macros + "parser {\n" + "\n".join(body_m) + "\n}\n"
        isrc = decl + "parser {\n" + "\n".join(body_i) + "\n}\n"
        seeds = [b"1,2;3,4;5,6;", b"1,2;3,4!", b"7,8?", b"1,2;3,4;5,6?", b"9,9;9,9;9,9!"]
        out.append((msrc, isrc, seeds))
    return out


def bad_call_variants(rng, mast):
    """mutate one call: wrong count or wrong kind; expected: diagnosed error"""
    out = []
    calls = []
    for body in [mast.body] + [mc.body for mc in mast.macros]:
        gen.walk(body, lambda s: calls.append(s) if s.kind == "call" else None)
    macs = {mc.name: mc for mc in mast.macros}
    for c in calls:
        mc = macs.get(c.name)
        if mc is None:
            continue
        orig = list(c.args)
        # wrong count
        c.args = orig + ["h0"]
        out.append(("extra-argument", gen.prog_src(mast)))
        if orig:
            c.args = orig[:-1]
            out.append(("missing-argument", gen.prog_src(mast)))
            k = rng.randrange(len(orig))
            kind = mc.params[k][0]
            wrong = N("rx", tree=("ch", 97), binary=False) if kind in ("out", "hook", "loop", "finishcode", "yieldcode", "macro", "expr") else N("num", v=5, text="5")
            c.args = orig[:k] + [wrong] + orig[k + 1:]
            out.append(("wrong-kind-for-" + kind, gen.prog_src(mast)))
            if kind in ("out", "hook", "loop", "finishcode", "yieldcode", "macro"):
                c.args = orig[:k] + ["no_such_name"] + orig[k + 1:]
                out.append(("undefined-name-for-" + kind, gen.prog_src(mast)))
        c.args = orig
    return out


def run(ctx: Ctx):
    rng = ctx.rng
    quick = ctx.quick
    n = 45 if quick else 500
    prof = {"w": {"hook": 12, "finish": 9, "loop": 12, "case": 9, "assign": 14, "appendm": 8, "break_": 8}}
    pool, st = work.generated_pool(rng, n, profile=prof)
    ypool, st2 = work.generated_pool(rng, n // 5, profile=dict(prof, yields=True, w=dict(prof["w"], yield_=8)))
    cases = []
    kinds = {}
    rejected_both = 0
    for ast, src, args, r in pool + ypool:
        mast, info = macroize(rng, ast)
        msrc = gen.prog_src(mast)
        for k, v in info.items():
            kinds[k] = kinds.get(k, 0) + v
        ctx.evaluations += 1
        rm = nm.compile_source(msrc, args, name="m0")
        if not rm.ok:
            ctx.violation("c13:verdict-differs:%s" % (rm.exc_type if rm.status == "rejected" else "internal-" + str(rm.exc_type)),
                          "inlined program accepted but macro version %s: %s" % (rm.status, (rm.exc_msg or "")[:200]),
                          {"inlined_source": src, "macro_source": msrc, "nmfu_args": args})
            continue
        ctx.count("macro_programs_accepted")
        cases.append(diff.Case("macro", [("inlined", src, args + ["-O2"]), ("macros", msrc, args + ["-O2"])], ast=ast))
        if len(ctx.samples) < 2 and info:
            ctx.sample({"macro_source": msrc[:1200], "parameter_kinds": info})
        # argument errors must be diagnosed
        for tag, bsrc in bad_call_variants(rng, mast)[: (4 if quick else 12)]:
            rb = nm.compile_source(bsrc, args, name="b0", keep=False)
            ctx.count("bad_call_programs")
            ctx.nontrivial(("bad", bsrc))
            if rb.status == "internal":
                ctx.violation("c13:bad-argument-internal:%s" % rb.exc_type, "%s gives internal %s: %s" % (tag, rb.exc_type, (rb.exc_msg or "")[:150]),
                              {"macro_source": bsrc, "nmfu_args": args, "mutation": tag})
            elif rb.status == "accepted" and ("count" in tag or "argument" in tag or tag.startswith("wrong-kind") or tag.startswith("undefined")):
                ctx.violation("c13:bad-argument-accepted:%s" % tag.split("-for-")[0], "%s accepted silently" % tag, {"macro_source": bsrc, "nmfu_args": args, "mutation": tag})
            else:
                ctx.count("bad_calls_diagnosed")
    ctx.cov["reentrant_macro_cases"] = 0
    for msrc, isrc, seeds in reentrant_cases(rng, 10 if quick else 80):
        ri_, rm = nm.compile_source(isrc, [], name="i0", keep=False), nm.compile_source(msrc, [], name="m0", keep=False)
        ctx.evaluations += 1
        if ri_.ok != rm.ok:
            ctx.violation("c13:verdict-differs:reentrant", "inlined %s, macro version %s (%s)" % (ri_.status, rm.status, rm.exc_type), {"inlined_source": isrc, "macro_source": msrc, "nmfu_args": []})
            continue
        if ri_.ok:
            ctx.cov["reentrant_macro_cases"] += 1
            cases.append(diff.Case("reentrant", [("inlined", isrc, ["-O2"]), ("macros", msrc, ["-O2"])], seeds=seeds))
    ctx.cov["shadowing_macro_cases"] = 0
    for msrc, isrc, seeds in shadow_cases(rng, 10 if quick else 100):
        ri_, rm = nm.compile_source(isrc, [], name="i0", keep=False), nm.compile_source(msrc, [], name="m0", keep=False)
        ctx.evaluations += 1
        if ri_.ok != rm.ok:
            ctx.violation("c13:verdict-differs:shadowing", "inlined %s (%s), macro version %s (%s)" % (ri_.status, ri_.exc_msg, rm.status, rm.exc_msg), {"inlined_source": isrc, "macro_source": msrc, "nmfu_args": []})
            continue
        if ri_.ok:
            ctx.cov["shadowing_macro_cases"] += 1
            cases.append(diff.Case("shadowing", [("inlined", isrc, ["-O2"]), ("macros", msrc, ["-O2"])], seeds=seeds))
    # rejected programs: the macro version must be rejected too
    rej = []
    work.generated_pool(rng, 8 if quick else 60, profile={"strict_after_open": 0.7}, on_reject=lambda a, s, ar, r: rej.append((a, s, ar, r)) if r.status == "rejected" else None)
    for ast, src, args, r in rej[: (12 if quick else 80)]:
        mast, info = macroize(rng, ast)
        rm = nm.compile_source(gen.prog_src(mast), args, name="m0", keep=False)
        ctx.count("rejected_twins")
        if rm.status != "rejected":
            ctx.violation("c13:verdict-differs:rejected-inlined-%s-macro" % rm.status, "inlined program rejected (%s) but macro version %s" % (r.exc_type, rm.status),
                          {"inlined_source": src, "macro_source": gen.prog_src(mast), "nmfu_args": args})
    ctx.extra["parameter_kinds_used"] = kinds

    def compare(ref_items, items, p0, p, bs):
        d = c12.compare(ref_items, items, p0, p, bs)
        if d is None:
            return None
        return ("c13:behaviour-differs:" + d[0].split(":")[2], d[1])
    diff.run_cases(ctx, cases, compare, rng, quick, nwalk=30 if quick else 60, input_cap=80 if quick else 250)
    ctx.floor("pairs_compared", 1500 if quick else 30000)
    ctx.floor("bad_calls_diagnosed", 40)
    ctx.floor("reentrant_macro_cases", 5)
    ctx.floor("shadowing_macro_cases", 5)
    # (loop / finishcode / yieldcode parameters depend on what the generated programs happen to contain: reported, not required)
    need = ("out", "hook", "match", "expr") if quick else ("out", "hook", "match", "expr", "macro")
    ctx.inconclusive_if(any(not kinds.get(k) for k in need), "some argument kinds never generated: %s" % kinds)
    ctx.rule = ("case = (program, input): the inlined program and its macro-ized twin (1-3 extracted macros, nested, parameters of every kind) "
                "must be accepted alike and give identical per-byte traces; plus mutated calls (extra/missing/wrong-kind/undefined argument) "
                "that must be rejected with a diagnosed error; non-trivial = trace has an event, or a mutated call; distinct by (source, input)")
    ctx.assumptions += ["macro-ization is the harness's own AST transformation; the inlined original is the reference"]


def replay(path):
    d = json.load(open(path))
    for k in ("inlined_source", "macro_source", "nmfu_source", "other_source"):
        if k in d and d[k] != "(same)":
            r = nm.compile_source(d[k], d.get("nmfu_args", d.get("reference_args", [])), name="p0", keep=False)
            print(k, "->", r.status, r.exc_type, (r.exc_msg or "")[:200])
    return 0
