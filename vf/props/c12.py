"""C12 - representation options never change what is parsed.

SUT: one program built under several representation-option sets (storage mode, char/u8, hook placement, user pointer,
packed enums, header guard style, direct/indirect pointer, zero-length support, range-collapse threshold), all in one
sanitized binary. Oracle: the default-option build of the same program; strict equality of per-byte traces.
"""
import json

from .. import diff, gen, nm, trace, work
from ..common import Ctx

LEVEL = "exploration"

FLAGS = [
    ["-fallocate-str-space-dynamic"], ["-fallocate-str-space-dynamic-on-demand"],
    ["-fallocate-str-space-dynamic-on-demand", "-fdelete-string-free-memory"], ["-fstrings-as-u8"], ["-fhook-per-state"],
    ["-finclude-user-ptr"], ["-fuse-packed-enums"], ["-fuse-pragma-once"], ["-fno-use-cplusplus-guard"], ["-findirect-start-ptr"],
    ["-fzero-len-input-support"], ["--collapsed-range-length", "1"], ["--collapsed-range-length", "2"], ["--collapsed-range-length", "300"],
    ["-fno-collapse-transition-ranges"],
]
STORAGE = FLAGS[:3]

PROFILE = {"w": {"appendm": 14, "appendc": 6, "assignstr": 6, "delete": 5, "hook": 12, "try_": 9},
           "str_defaults": 0.3, "assign_high_bytes": 0.1, "high_bytes": 0.08}


def rows(rng, k):
    out = [["-fhook-per-state"]]
    for _ in range(k):
        r = []
        if rng.random() < 0.6:
            r += rng.choice(STORAGE)
        for f in FLAGS[3:]:
            if rng.random() < 0.3:
                if f[0] == "--collapsed-range-length" and "--collapsed-range-length" in r:
                    continue
                r += f
        out.append(r)
    # every single flag alone at least somewhere
    out.append(rng.choice(FLAGS))
    return out


def compare(ref_items, items, p0, p, bs):
    def view(x):
        t = x[0]
        if t == "H":
            return ("H", x[1], x[2], diff.strip_snap_repr(x[4]), x[5])
        if t in ("Y", "T"):
            return (t, x[1], diff.strip_snap_repr(x[3]), x[4])
        if t == "F":
            return ("F", diff.strip_snap_repr(x[1]))
        return x
    a = [view(x) for x in ref_items if x[0] != "I"]
    b = [view(x) for x in items if x[0] != "I"]
    if a != b:
        for i in range(max(len(a), len(b))):
            x = a[i] if i < len(a) else None
            y = b[i] if i < len(b) else None
            if x != y:
                tx = (x or y)[0]
                if x and y and x[0] == y[0]:
                    what = {"H": "hook", "T": "terminal", "Y": "yield", "F": "final-store"}.get(tx, tx)
                    if tx == "H" and x[1] == y[1] and x[3] == y[3] and x[4] == y[4]:
                        what = "hook-inval"
                    elif tx in ("T", "Y") and x[1] == y[1] and x[3] == y[3]:
                        what += "-store"
                    elif tx in ("T", "Y") and x[1] != y[1]:
                        what += "-code"
                else:
                    what = "sequence"
                if any(it[0] == "A" for it in (ref_items + items)):
                    ab = next(it for it in (ref_items + items) if it[0] == "A")
                    what = "sanitizer:" + ab[1]
                optkey = "+".join(sorted(o.lstrip("-").replace("allocate-str-space-", "") for o in p.meta["args"] if o.startswith("-f") and o not in p0.meta["args"]))[:80]
                return ("c12:differs:%s:%s" % (what, optkey), "item %d: default build %s, this build %s" % (i, x, y))
    # pointer offsets when both builds are indirect
    for x, y in zip([q for q in ref_items if q[0] in ("T", "Y")], [q for q in items if q[0] in ("T", "Y")]):
        if x[2] >= 0 and y[2] >= 0 and x[2] != y[2]:
            return ("c12:differs:pointer-offset", "pointer offset %d vs %d at %s" % (x[2], y[2], x[:2]))
    return None


def run(ctx: Ctx):
    rng = ctx.rng
    quick = ctx.quick
    n_gen = 24 if quick else 140
    nrows = 5 if quick else 14
    pool, st = work.generated_pool(rng, n_gen, profile=PROFILE)
    ypool, st2 = work.generated_pool(rng, 4 if quick else 40, profile=dict(PROFILE, yields=True, w=dict(PROFILE["w"], yield_=8)))
    epool, st3 = work.generated_pool(rng, 8 if quick else 60, profile=dict(PROFILE, eof=True, end_prob=0.3, w=dict(PROFILE["w"], hook=16, try_=10)))
    cases = []
    from . import c03
    for ast, src, args, r in pool + ypool + epool:
        base = args + ["-O2"]
        rws = rows(rng, nrows)
        if c03.has_idx(ast) and "delete " in src:
            # s[i] with i at or beyond the current length reads whatever the buffer still holds: stale bytes after `delete s` in place,
            # nothing once the buffer has been freed. Such a read is outside what a program may rely on; not a representation difference
            rws = [[f for f in row if f != "-fdelete-string-free-memory"] for row in rws]
        variants = [("default", src, base)] + [("row", src, base + row) for row in rws]
        cases.append(diff.Case("gen", variants, ast=ast))
    # hooks and outputs on end-of-input transitions (end() is part of every run of an EOF build)
    for src in ('out int n = 0;\nhook h0;\nhook h1;\nparser {\n "ab";\n h0();\n end;\n h1();\n n = 3;\n}\n',
                'out str[4] s;\nhook h0;\nhook h1;\nparser {\n case {\n  end -> {\n   h0();\n  }\n  /x+/ -> {\n   s += "k";\n   h1();\n   end;\n   h0();\n  }\n }\n}\n',
                'out int n = 0;\nhook h0;\nparser {\n try {\n  "abc";\n }\n catch {\n  wait end;\n  n = 2;\n  h0();\n }\n}\n',
                'out str[3] s;\nhook h0;\nparser {\n s += /[a-c]+/;\n end;\n if s.len == 2 {\n  h0();\n }\n}\n'):
        base = ["-feof-support", "-O2"]
        cases.append(diff.Case("eof-hooks", [("default", src, base)] + [("row", src, base + row) for row in rows(rng, 3)], seeds=[b"ab", b"a", b"xx", b"abc", b"abx", b"cab"]))
    # stored bytes >= 0x80 read back through indexing, $last, comparisons and arithmetic: char or uint8_t storage must not show
    for src in ('out str[4] s;\nout int x = 0;\nout int y = 0;\nhook h0;\nparser {\n loop {\n  s += /./;\n  x = [s[0]];\n  y = [s[s.len - 1] + 1];\n  if s[0] > 127 {\n   h0();\n  }\n  if s.len == 3 {\n   delete s;\n  }\n }\n}\n',
                'out unterminated str[3] s;\nout int{unsigned, size 1} x;\nout int{size 2} y;\nhook h0;\nparser {\n s += b/[80-ff]/;\n x = [s[0] >> 1];\n y = [s[0] * 2 - $last];\n s += [s[0] ^ 255];\n if s[1] < s[0] {\n  h0();\n }\n /./;\n}\n',
                'out raw{uint16_t} r;\nout str[3] s = "\\xe9\\xff";\nout int x = 0;\nhook h0;\nparser {\n r += /../;\n x = [r[0] + r[1] * 256 + s[0] + s[1]];\n if s[1] == 255 {\n  h0();\n }\n ";";\n}\n'):
        base = ["-O2"]
        variants = [("default", src, base), ("u8", src, base + ["-fstrings-as-u8"]), ("u8-dyn", src, base + ["-fstrings-as-u8", "-fallocate-str-space-dynamic"])] + [("row", src, base + row) for row in rows(rng, 2)]
        cases.append(diff.Case("high-bytes", variants, seeds=[b"\xe9\x80\xff;", b"\xff\xfe;", b"a\x80\x7f\x81;", b"\x80", b"\xff\x00\xe9\x01"]))
    for fn, src, args, seeds in work.corpus():
        b = fn.rsplit("/", 1)[-1]
        if quick and b in ("gtfs-realtime.nmfu", "ttc_rdf.nmfu"):
            continue
        base = args + ["-O2"]
        variants = [("default", src, base)] + [("row", src, base + row) for row in rows(rng, 2 if quick else 8)]
        cases.append(diff.Case(b, variants, seeds=seeds + work.CORPUS_SEEDS.get(b, [])))
    ctx.cov.update({"programs_generated": st["generated"] + st2["generated"], "programs_accepted": len(pool) + len(ypool), "corpus_programs": len(cases) - len(pool) - len(ypool)})
    flags_used = {}
    for c in cases:
        for _, _, a in c.variants[1:]:
            for o in a:
                if o.startswith("-f") or o.startswith("--"):
                    flags_used[o] = flags_used.get(o, 0) + 1
    ctx.extra["option_occurrences"] = flags_used
    diff.run_cases(ctx, cases, compare, rng, quick)
    ctx.floor("pairs_compared", 3000 if quick else 40000)
    ctx.floor("hook_events", 60)
    ctx.floor("terminal_events", 300)
    ctx.rule = ("case = (program, input); each case runs on the default-option build and on %d option rows drawn over storage mode x "
                "char/u8 x hook placement x user pointer x packed enums x guard style x indirect pointer x zero-length support x "
                "collapse threshold; non-trivial = trace has a hook, yield or terminal event; distinct by (source, input)" % nrows)
    ctx.assumptions += ["the default-option build of the same source is the reference (no model); comparison is strict: codes, output contents and lengths, hook sequence with inval, per-byte attribution"]


def replay(path):
    d = json.load(open(path))
    from .. import cdrv
    bs = bytes.fromhex(d["input_hex"])
    out = []
    for args in (d["reference_args"], d["other_args"]):
        r = nm.compile_source(d["nmfu_source"], args, name="p0")
        if not r.ok:
            print("compile", r.status, r.exc_type)
            return 1
        p = cdrv.Prog(r)
        b = cdrv.Batch([p]).build()
        res = b.run([("x", p, diff.default_script(p, bs))])
        items = trace.normal_form(res["x"], p)
        print(args, trace.describe(items, p, 40))
        out.append((items, p))
        b.cleanup()
    v = compare(out[0][0], out[1][0], out[0][1], out[1][1], bs)
    print("verdict:", v)
    return 1 if v else 0
