"""C19 - command-line options resolve to a consistent configuration.

Deciding oracle: an icontract post-condition on the real ProgramData.load_commandline_flags (invariants I1,I2,I5
read from ProgramFlag metadata at run time) plus cross-call monitors (explicit conflicts error, level
monotonicity, permutation independence, malformed options -> RuntimeError).
"""
import itertools
import random

from .. import nm
from ..common import Ctx

LEVEL = "exploration"


class PostBroken(Exception):
    pass


class Monitor:
    def __init__(self, m):
        self.m = m
        self.PF = m.ProgramFlag
        self.PD = m.ProgramData
        self.evals = 0
        self.cur = None   # (level, explicit dict) for the call under way, set by the harness
        self.why = None

    def base(self, level):
        on = {f: f.default for f in self.PF}
        for k in range(level + 1):
            for f in self.PD._OPTIMIZE_LEVELS[k]:
                on[f] = True
        return on

    # the post-condition proper (named function, explicit error=, see brief)
    def post(self, cls, all_cmd_options, result):
        self.evals += 1
        flags = self.PD._flags
        on = {f for f, v in flags.items() if v}
        for f in on:
            for i in f.implies:
                if self.PF(i) not in on:
                    self.why = f"I1 implied flag off: {f.name} on but {self.PF(i).name} off"
                    return False
            for x in f.exclusive_with:
                if self.PF(x) in on:
                    self.why = f"I2 exclusive flags both on: {f.name} and {self.PF(x).name}"
                    return False
        if self.cur is not None:
            level, explicit, options = self.cur
            base = self.base(level)
            for f in self.PF:
                v = flags[f]
                if f in explicit:
                    if explicit[f] and not v:
                        self.why = f"I5 explicit -f{f.name} ended off without an error"
                        return False
                    if not explicit[f] and v and not any(int(f) in g.implies for g in on):
                        self.why = f"I5 explicit -fno-{f.name} ended on although nothing implies it"
                        return False
                else:
                    if v != base[f]:
                        if v and not any(int(f) in g.implies for g in on):
                            self.why = f"I5 {f.name} on, not in level {level}, not requested, not implied"
                            return False
                        if not v and not any(int(f) in g.exclusive_with for g in on):
                            self.why = f"I5 {f.name} off although level/default has it on and nothing excludes it"
                            return False
            for o in self.m.ProgramOption:
                want = options.get(o, o.default)
                if self.PD._options[o] != want:
                    self.why = f"option {o.name} = {self.PD._options[o]!r}, expected {want!r} (leak between calls or ignored option)"
                    return False
        return True


def flag_opt(f, v, style):
    n = f.name.lower().replace("_", "-")
    if style == 0:
        return [("-f" if v else "-fno-") + n]
    if style == 1:
        return ["--flag", n + ("=yes" if v else "=no")]
    return ["--flag", n + ("=on" if v else "=off")] if v or style == 2 else ["--flag", n + "=no"]


def run(ctx: Ctx):
    import icontract
    m = nm.nmfu()
    PF, PD = m.ProgramFlag, m.ProgramData
    mon = Monitor(m)
    orig = PD.__dict__["load_commandline_flags"].__func__
    wrapped = icontract.ensure(mon.post, error=lambda: PostBroken(mon.why))(orig)
    PD.load_commandline_flags = classmethod(wrapped)
    rng = ctx.rng

    related = sorted({f for f in PF if f.implies or f.exclusive_with} |
                     {PF(i) for f in PF for i in itertools.chain(f.implies, f.exclusive_with)}, key=int)
    optflags = [f for f in PF if PD._is_optimization_flag(f) >= 0]
    ctx.extra["related_flags"] = [f.name for f in related]

    def call(argv):
        """-> ('ok', frozenset(on), options) | ('err', msg) | ('post', why) | ('exc', type, msg)"""
        try:
            PD.load_commandline_flags(argv)
        except RuntimeError as e:
            return ("err", str(e))
        except PostBroken as e:
            return ("post", str(e))
        except SystemExit as e:
            return ("exc", "SystemExit", repr(e))
        except Exception as e:
            return ("exc", type(e).__name__, str(e)[:200])
        return ("ok", frozenset(f for f, v in PD._flags.items() if v), dict(PD._options))

    def viol(key, what, argv, extra=None):
        ctx.violation(key, what, {"argv": argv, "extra": extra,
                                  "how": "nmfu.ProgramData.load_commandline_flags(argv)"})

    def check_assignment(level, assign, nperm, styles=True):
        """assign: list of (flag, bool) distinct flags. Runs the call, the contract, and cross-call monitors."""
        explicit = dict(assign)
        parts = []
        for f, v in assign:
            parts.append(flag_opt(f, v, rng.randrange(3) if styles else 0))
        lvl = [] if level is None else [f"-O{level}"]
        eff_level = 1 if level is None else level
        argv = lvl + [x for p in parts for x in p] + ["in.nmfu"]
        mon.cur = (eff_level, explicit, {})
        res = call(argv)
        ctx.evaluations += 1
        nontriv = any(f in related for f, _ in assign)
        if nontriv:
            ctx.nontrivial(("a", eff_level, tuple(sorted((int(f), v) for f, v in assign))))
        if res[0] == "post":
            viol("contract:" + res[1].split(" ")[0], res[1], argv)
            return res
        if res[0] == "exc":
            viol(f"exception:{res[1]}:wellformed", f"well-formed options raise {res[1]}: {res[2]}", argv)
            return res
        # I3: both sides of an exclusion explicitly on -> must be an error
        both = [(f, PF(x)) for f, v in assign if v for x in f.exclusive_with if explicit.get(PF(x)) is True]
        if both and res[0] != "err":
            viol("I3:explicit-conflict-accepted", f"explicit {both[0][0].name} and {both[0][1].name} accepted", argv)
        if res[0] == "err":
            ctx.count("diagnosed_conflicts")
            if "Conflict" not in res[1]:
                viol("spurious-error", f"well-formed options rejected: {res[1]}", argv)
        else:
            ctx.count("resolved_ok")
        # I6: permutations of the option groups (and of -O / filename position)
        for _ in range(nperm):
            groups = parts[:] + ([lvl] if lvl else []) + [["in.nmfu"]]
            rng.shuffle(groups)
            argv2 = [x for p in groups for x in p]
            res2 = call(argv2)
            ctx.count("permutations")
            same = (res[0] == res2[0]) and (res[0] == "err" or res[1:] == res2[1:])
            if not same:
                viol("I6:order-dependent", f"result depends on option order: {res[:2]} vs {res2[:2]}", argv, argv2)
        return res

    # ---- part 1: exhaustive / sampled assignments over the related flags x levels ----------------
    n = len(related)
    total = 3 ** n
    levels = [0, 1, 2, 3]
    if ctx.quick:
        idxs = rng.sample(range(total), min(total, 12000))
        nperm = 1
    else:
        idxs = range(total)
        nperm = 1
    results = {}
    for idx in idxs:
        assign = []
        k = idx
        for f in related:
            d = k % 3
            k //= 3
            if d:
                assign.append((f, d == 1))
        per_level = []
        for level in levels:
            r = check_assignment(level, assign, nperm if len(assign) > 1 else 0, styles=False)
            per_level.append(r)
        # I4 with identical overrides: level k result is a superset of level k-1, errors agree
        for a, b, lv in zip(per_level, per_level[1:], levels[1:]):
            if a[0] in ("post", "exc") or b[0] in ("post", "exc"):
                continue
            if a[0] != b[0]:
                viol("I4:error-depends-on-level", f"-O{lv - 1} {a[0]} but -O{lv} {b[0]}", [f"{f.name}={v}" for f, v in assign])
            elif a[0] == "ok" and not a[1] <= b[1]:
                viol("I4:level-not-cumulative", f"-O{lv} lacks {[f.name for f in a[1] - b[1]]} of -O{lv - 1}",
                     [f"{f.name}={v}" for f, v in assign])
    ctx.extra["exhaustive"] = not ctx.quick
    ctx.extra["assignment_space"] = total * len(levels)

    # ---- part 2: every optimisation flag x level x on/off, and the level table itself -------------
    prev = None
    for level in levels:
        r = check_assignment(level, [], 0)
        if r[0] == "ok":
            want = {f for k in range(level + 1) for f in PD._OPTIMIZE_LEVELS[k]}
            have = {f for f in r[1] if f in optflags}
            ctx.nontrivial(("lvl", level))
            if prev is not None and not prev <= r[1]:
                viol("I4:level-not-cumulative", f"-O{level} lacks flags of -O{level - 1}", [f"-O{level}"])
            prev = r[1]
        for f in optflags:
            for v in (True, False):
                r = check_assignment(level, [(f, v)], 1)
                ctx.nontrivial(("opt", level, int(f), v))
                if r[0] == "ok" and ((f in r[1]) != v):
                    viol("I5:explicit-opt-flag-ignored", f"-O{level} with explicit {f.name}={v} gives {f in r[1]}", [level, f.name, v])
    # default level is 1
    r0, r1 = check_assignment(None, [], 0), check_assignment(1, [], 0)
    if r0[:2] != r1[:2]:
        viol("default-level", "no -O differs from -O1", [])

    # ---- part 3: random long command lines over all flags, with ProgramOption values ---------------
    allflags = list(PF)
    nrand = 1500 if ctx.quick else 20000
    intopts = [o for o in m.ProgramOption if isinstance(o.default, int)]
    for _ in range(nrand):
        k = rng.choice([1, 2, 3, 5, 8, 12])
        fl = rng.sample(allflags, min(k, len(allflags)))
        assign = [(f, rng.random() < 0.6) for f in fl]
        # options ride along: checked by the contract through mon.cur
        level = rng.choice([None, 0, 1, 2, 3])
        explicit = dict(assign)
        opts = {}
        parts = [flag_opt(f, v, rng.randrange(3)) for f, v in assign]
        for o in rng.sample(intopts, rng.randrange(0, len(intopts) + 1)):
            val = rng.choice([0, 1, 2, 4, 7, 300])
            opts[o] = val
            parts.append(["--" + o.name.lower().replace("_", "-"), str(val)])
        if rng.random() < 0.3:
            parts.append(rng.choice([["-ooutname"], ["--output", "outname"]]))
        if rng.random() < 0.2:
            parts.append(["-t"])
        lvl = [] if level is None else [[f"-O{level}"]]
        groups = parts + lvl + [["in.nmfu"]]
        rng.shuffle(groups)
        argv = [x for p in groups for x in p]
        mon.cur = (1 if level is None else level, explicit, opts)
        res = call(argv)
        ctx.evaluations += 1
        ctx.count("random_cmdlines")
        ctx.nontrivial(("r", tuple(argv)))
        if res[0] == "post":
            viol("contract:" + res[1].split(" ")[0], res[1], argv)
        elif res[0] == "exc":
            viol(f"exception:{res[1]}:wellformed", f"well-formed options raise {res[1]}: {res[2]}", argv)
        elif res[0] == "err" and "Conflict" not in res[1]:
            viol("spurious-error", f"well-formed options rejected: {res[1]}", argv)
        else:
            rng.shuffle(groups)
            argv2 = [x for p in groups for x in p]
            res2 = call(argv2)
            ctx.count("permutations")
            if not ((res[0] == res2[0]) and (res[0] == "err" or res[1:] == res2[1:])):
                viol("I6:order-dependent", f"result depends on option order", argv, argv2)
    ctx.sample({"argv": argv, "result": res[0], "on": sorted(f.name for f in res[1]) if res[0] == "ok" else res[1]})

    # ---- part 4: malformed / unknown options must be RuntimeError --------------------------------
    mon.cur = None
    good_tail = ["in.nmfu"]
    malformed = [
        (["-O4"], "level-out-of-range"), (["-O9"], "level-out-of-range"), (["-O-1"], "level-out-of-range"),
        (["-Ox"], "level-not-int"), (["-O"], "level-missing"), (["-O1.5"], "level-not-int"),
        (["-fnot-a-flag"], "unknown-flag"), (["-fno-not-a-flag"], "unknown-flag"), (["-f"], "unknown-flag"),
        (["--flag", "bogus"], "unknown-flag"), (["--flag", "bogus=yes"], "unknown-flag"),
        (["--flag", "eof-support=yes=no"], "flag-arg-malformed"), (["--flag"], "missing-value"),
        (["--bogus-option", "3"], "unknown-option"), (["-x"], "unknown-option"), (["-"], "invalid-arg"),
        (["--collapsed-range-length", "abc"], "option-not-int"), (["--collapsed-range-length"], "missing-value"),
        (["--max-shortcircuit-fallthrough", "1.5"], "option-not-int"),
        (["-dzzz"], "unknown-dumpable"), (["--dump", "dfa,zzz"], "unknown-dumpable"), (["-d"], "unknown-dumpable"),
        (["-oa.b"], "output-ext"), (["second.nmfu"], "two-inputs"), (["--output"], "missing-value"),
        (["--dump-prefix"], "missing-value"),
    ]
    for f in rng.sample(allflags, 6):
        nme = f.name.lower().replace("_", "-")
        malformed.append(([f"-f{nme}x"], "unknown-flag"))
        malformed.append((["--flag", nme + "=yes=yes"], "flag-arg-malformed"))
    for lv in rng.sample(range(4, 400), 4):
        malformed.append(([f"-O{lv}"], "level-out-of-range"))
    for bad, tag in malformed:
        for pos in (0, 1):
            extra = rng.sample([["-finclude-user-ptr"], ["-feof-support"], ["-fno-hook-global"], ["-t"]], rng.randrange(0, 3))
            argv = [x for p in extra for x in p]
            argv = (bad + argv + good_tail) if pos == 0 else (argv + good_tail + bad)
            # a trailing option that swallows the next word is only malformed at the very end
            res = call(argv)
            ctx.evaluations += 1
            ctx.count("malformed_cmdlines")
            ctx.nontrivial(("m", tuple(argv)))
            if res[0] == "err":
                ctx.count("malformed_diagnosed")
            elif res[0] == "exc":
                viol(f"malformed:{tag}:{res[1]}", f"malformed option {bad} raises {res[1]} instead of a diagnosed error", argv)
            elif res[0] == "ok":
                # value-taking option at pos 0 may have swallowed the next word legitimately
                if pos == 0 and tag == "missing-value":
                    continue
                viol(f"malformed:{tag}:accepted", f"malformed option {bad} silently accepted", argv)
    # missing input file
    res = call(["-O2"])
    if res[0] != "err":
        viol("malformed:no-input", "no input file accepted", ["-O2"])

    ctx.cov["contract_evaluations"] = mon.evals
    ctx.floor("contract_evaluations", 1000)
    ctx.floor("diagnosed_conflicts", 10)
    ctx.floor("malformed_diagnosed", 10)
    ctx.rule = ("cases = option vectors; part 1 enumerates (thorough) or samples (quick) all 3^n on/off/absent assignments of the "
                "n flags related by implies/exclusive metadata x -O0..3; non-trivial = touches at least one related flag, an "
                "optimisation flag x level, a random long command line, or a malformed option; distinct by (level, assignment) / argv")
    ctx.assumptions += ["ProgramFlag.implies/exclusive_with metadata is the specification of the relations",
                        "the contract runs on the real classmethod via icontract.ensure; calls that raise are judged by the wrapper"]


def replay(path):
    import json
    m = nm.nmfu()
    d = json.load(open(path))
    print("argv:", d["argv"])
    try:
        print(m.ProgramData.load_commandline_flags(d["argv"]))
        print(sorted(f.name for f, v in m.ProgramData._flags.items() if v))
    except BaseException as e:
        print("raised", type(e).__name__, e)
    return 0
