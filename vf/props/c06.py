"""C06 - the emitted C executes exactly the compiled state machine.

SUT: emitted C (ASan+UBSan). For every machine state, every byte value 0..255 (and end-of-input) and several data
contexts the driver forces the state and the outputs, performs one step on a deep copy and reports return code,
resulting state, outputs, hook calls and pointer advance. Oracle: vf/am.py, an executor written from what the machine
means, run on the DFState/DFTransition/Action objects of the same compilation (translation validation per program).
"""
import json

from .. import am, cdrv, gen, nm, work
from ..common import Ctx

LEVEL = "translation_validation"

OPTION_ROWS = [["-O0"], ["-O1"], ["-O2"], ["-O3"], ["-O3", "-fstrict-done-token-generation"], ["-O2", "--collapsed-range-length", "1"],
               ["-O1", "-fno-simplify-else-conditions"], ["-O2", "-fstrings-as-u8"], ["-O0", "-fno-remove-inaccesible-states"]]


def contexts(rng, machine, k):
    """list of stores (name -> value | [bytearray, n]) plus the script lines that establish them"""
    out = []
    for mode in ("empty", "full", "random")[:k]:
        store = {}
        lines = []
        for o in machine.outs:
            if o.typ in ("str", "ustr", "raw"):
                cap = machine.cap(o)
                if mode == "empty":
                    n = 0
                elif mode == "full":
                    n = cap
                else:
                    n = rng.randrange(0, cap + 1)
                content = bytes(rng.choice([0x61, 0x30, 0x80, 0xff, 0x0a]) for _ in range(n))
                buf = bytearray(o.size)       # SETSTR zero-fills the buffer before writing the content: reads beyond the length see zeros
                buf[:n] = content
                if o.typ == "str" and n < o.size:
                    buf[n] = 0
                store[o.name] = [buf, n]
                lines.append("SETSTR %s %s" % (o.name, cdrv.hexs(content)))
            elif o.typ == "bool":
                v = int(rng.random() < 0.5)
                store[o.name] = v
                lines.append("SET %s %d" % (o.name, v))
            elif o.typ == "enum":
                v = rng.randrange(len(o.values))
                store[o.name] = v
                lines.append("SET %s %d" % (o.name, v))
            else:
                t = am.carith.ctype_of_out(o)
                v = rng.choice([0, 1, 2, 5, 7, 48, 100, 255]) if mode != "random" else rng.choice([0, 1, -1, 3, 127, 128, 255, 256, 1000])
                v = am.carith.wrap(v, t)
                store[o.name] = v
                lines.append("SET %s %d" % (o.name, v))
        out.append((mode, store, lines))
    return out


def copy_store(s):
    return {k: ([bytearray(v[0]), v[1]] if isinstance(v, list) else v) for k, v in s.items()}


def view(machine, store):
    out = []
    for o in machine.outs:
        x = store[o.name]
        if isinstance(x, list):
            out.append((o.name, x[1], bytes(x[0][:x[1]])))
        else:
            out.append((o.name, x))
    return tuple(out)


def run(ctx: Ctx):
    rng = ctx.rng
    quick = ctx.quick
    n_gen = 18 if quick else 160
    nctx = 2 if quick else 3
    profiles = [None, {"yields": True, "w": {"yield_": 8}}, {"eof": True, "w": {"try_": 10}}, {"w": {"appendm": 14, "appendc": 8, "try_": 10, "if_": 9, "gcase": 4}, "str_defaults": 0.3}]
    pool = []
    for i, prof in enumerate(profiles):
        pl, st = work.generated_pool(rng, max(2, n_gen // len(profiles)), profile=prof,
                                     args_fn=lambda rng, ast: rng.choice(OPTION_ROWS) + ["-findirect-start-ptr"])
        pool += pl
        ctx.count("programs_generated", st["generated"])
    entries = [(src, args, "gen") for ast, src, args, r in pool]
    from . import c01
    for ast in c01.loop_tail_shapes(rng, 6 if quick else 60, yields=True, family="append-yield") + c01.loop_tail_shapes(rng, 6 if quick else 60, yields=True):
        entries.append((gen.prog_src(ast), list(ast.args) + [rng.choice(["-O2", "-O3", "-O3"]), "-findirect-start-ptr"], "shapes"))
    bounds = [0x00, 0x01, 0x09, 0x1f, 0x20, 0x41, 0x5a, 0x61, 0x7a, 0x7e, 0x7f, 0x80, 0x81, 0xbf, 0xc0, 0xfd, 0xfe, 0xff]
    for i in range(10 if quick else 80):
        parts = []
        for _ in range(rng.choice([1, 2, 3])):
            lo = rng.choice(bounds)
            hi = min(255, lo + rng.choice([0, 1, 2, 3, 4, 5, 6, 7, 30, 127, 255]))
            if rng.random() < 0.4:
                hi = 255
            if rng.random() < 0.2:
                lo = 0
            parts.append("%02x-%02x" % (lo, hi) if hi > lo else "%02x" % lo)
        inv = "^" if rng.random() < 0.25 else ""
        src = "hook h0;\nhook h1;\nparser {\n loop {\n  case {\n   b/[%s%s]/ -> {\n    h0();\n   }\n   else -> {\n    h1();\n    /./;\n   }\n  }\n }\n}\n" % (inv, " ".join(parts))
        args = [rng.choice(["-O2", "-O3", "-O1"])] + rng.choice([[], ["--collapsed-range-length", str(rng.choice([1, 2, 3, 4, 5, 6]))], ["-fcollapse-transition-ranges"]]) + ["-findirect-start-ptr"]
        entries.append((src, args, "ranges"))
    for fn, src, args, seeds in work.corpus():
        b = fn.rsplit("/", 1)[-1]
        if b in ("gtfs-realtime.nmfu", "ttc_rdf.nmfu", "http.nmfu") and quick:
            continue
        if quick and rng.random() < 0.6:
            continue
        entries.append((src, [a for a in args if not a.startswith("-O")] + rng.choice(OPTION_ROWS) + ["-findirect-start-ptr"], b))
    disagreements = 0
    for chunk in work.chunked(entries, 24):
        progs = []
        for i, (src, args, label) in enumerate(chunk):
            r = nm.compile_source(src, args, name="p%d" % i)
            if not r.ok:
                continue
            try:
                mach = am.Machine(r)
            except am.Unknown:
                ctx.count("programs_outside_am")
                continue
            p = cdrv.Prog(r, meta={"src": src, "args": args, "label": label, "machine": mach})
            progs.append(p)
        if not progs:
            continue
        batch = cdrv.Batch(progs).build()
        runs = []
        plan = {}
        for p in batch.live:
            mach = p.meta["machine"]
            nstates = len(mach.states)
            states = list(range(nstates))
            if nstates > (40 if quick else 120):
                states = sorted(rng.sample(states, 40 if quick else 120))
            for k in states:
                for ci, (mode, store, lines) in enumerate(contexts(rng, mach, nctx)):
                    rid = "%s.%d.%d" % (p.name, k, ci)
                    script = ["QUIETOK 1", "START"] + lines + ["FORCE %d" % k, "SWEEP s"]
                    if p.eof:
                        script.append("ENDCOPY")
                    runs.append((rid, p, script))
                    plan[rid] = (p, k, store, mode)
        res = batch.run(runs, timeout=1500, zero_heap=True)
        ctx.count("binaries")
        ctx.count("programs", len(batch.live))
        for rid, (p, k, store, mode) in plan.items():
            run_ = res.get(rid)
            if run_ is None:
                continue
            mach = p.meta["machine"]
            if run_.abort:
                ctx.count("runs_aborted")      # sanitizer reports are C03's business; the steps before the abort are still compared
            # split events into per-byte groups
            cur_b = None
            hooks = []
            per = {}
            endres = None
            for e in run_.events:
                if e[0] == "w":
                    cur_b = e[1] if e[1] < 256 else None
                    hooks = []
                elif e[0] == "H" and cur_b is not None:
                    hooks.append((p.hooks[e[1]], e[2]))
                elif e[0] == "v":
                    per[e[1]] = (e[2], e[3], e[4], e[5], hooks)
                    cur_b = None
                    hooks = []
                elif e[0] == "R" and e[1] == "C":
                    # hooks of the ENDCOPY step: after the end-of-sweep marker (each swept byte is followed by an end() on a copy whose
                    # hooks are logged behind the byte's own record)
                    last_w = max([i for i, x in enumerate(run_.events) if x[0] == "w" and x[1] == 256] or [0])
                    endres = (e[3], e[5], e[7], [(p.hooks[h[1]], h[2]) for hi, h in enumerate(run_.events) if h[0] == "H" and hi > last_w])
            syms = list(per.items())
            if endres is not None:
                syms.append((am.END, endres))
            ctx.count("state_context_pairs")
            for sym, obs in syms:
                ctx.evaluations += 1
                try:
                    exp = mach.step(k, sym, copy_store(store))
                except am.Unknown:
                    ctx.count("steps_skipped_user_ub")
                    continue
                except am.Stuck as s:
                    ctx.count("steps_stuck_in_model")
                    continue
                ctx.count("steps_compared")
                if sym == am.END:
                    code, state, snap, hk = obs
                    adv = None
                else:
                    code, adv, state, snap, hk = obs
                if exp["hooks"] or exp["code"] != "OK":
                    ctx.nontrivial((p.meta["src"], tuple(p.meta["args"]), k, sym, mode))
                got = (p.code_name(code), state, view_snap(snap), hk)
                want = (exp["code"], exp["state"], view(mach, exp["store"]), exp["hooks"])
                diffs = [n for n, a, b in zip(("code", "state", "outputs", "hooks"), got, want) if a != b]
                if diffs == ["code"] and exp.get("done_now") == "via-break" and got[0] == "OK":
                    # the machine reaches its final state through a break: the C reports DONE on the following call instead of at once
                    # (the same postponement strict-done generation makes everywhere); judged under C10, not a mis-translation
                    ctx.count("done_postponed_after_break")
                    diffs = []
                    adv = None
                if not diffs and adv is not None and not exp["code"].startswith("YIELD"):
                    want_adv = 1 if (exp["consumed"] and exp["code"] == "OK") else 0
                    if adv != want_adv:
                        diffs = ["pointer"]
                if code == 14:
                    diffs = ["spin"]
                if diffs:
                    disagreements += 1
                    symtxt = "END" if sym == am.END else "0x%02x" % sym
                    ctx.violation("c06:differs:%s:%s" % ("+".join(diffs), "end" if sym == am.END else "feed"),
                                  "state %d on %s (%s context): C gives code=%s state=%s hooks=%s, the machine means code=%s state=%s hooks=%s; outputs C %s vs %s" %
                                  (k, symtxt, mode, got[0], got[1], got[3], want[0], want[1], want[3], got[2], want[2]),
                                  {"nmfu_source": p.meta["src"], "nmfu_args": p.meta["args"], "state": k, "symbol": symtxt, "context": mode,
                                   "script": run_.script, "observed": [str(x) for x in got], "expected": [str(x) for x in want]})
        if len(ctx.samples) < 3 and batch.live:
            p = batch.live[0]
            ctx.sample({"program": p.meta["src"][:400], "args": p.meta["args"], "states": len(p.meta["machine"].states), "symbols_per_state": 257 if p.eof else 256, "contexts": nctx})
        batch.cleanup()
    ctx.extra["programs"] = ctx.cov.get("programs", 0)
    ctx.extra["disagreements_checked"] = disagreements
    ctx.floor("steps_compared", 100000 if quick else 2000000)
    ctx.floor("state_context_pairs", 300)
    ctx.rule = ("case = (program build, machine state, symbol 0..255 or END, data context: strings empty / full / random with scalar values); every "
                "case is one forced step of the emitted C compared with the abstract machine's step on the same compilation's DFA; non-trivial = "
                "the step calls a hook or returns something other than OK; distinct by (source, options, state, symbol, context)")
    ctx.assumptions += ["vf/am.py is my reading of what the compiled machine means; disagreements are triaged both ways (DESIGN.md 3 C06)",
                        "pointer advance of yields is judged under C10, not here"]


def view_snap(snap):
    d = cdrv.parse_snap(snap)
    out = []
    for k, v in d.items():
        if isinstance(v, tuple):
            out.append((k, v[0], v[1]))
        else:
            out.append((k, v))
    return tuple(out)


def replay(path):
    d = json.load(open(path))
    print(json.dumps({k: v for k, v in d.items() if k != "nmfu_source"}, indent=1)[:2500])
    print(d["nmfu_source"])
    return 0
