"""Worker for C20: compiles a sequence of (source, args, name) jobs in one fresh process (own PYTHONHASHSEED, optional
allocation preamble that perturbs id()-keyed registries) and reports verdict + emitted code for the marked ones."""
import json
import random
import sys


def main():
    job = json.load(sys.stdin)
    sys.path.insert(0, job["verif"])
    from vf import cdrv, nm
    keep = []
    pre = job.get("preamble")
    if pre is not None:
        r = random.Random(pre)
        for _ in range(r.randrange(100, 3000)):
            keep.append([object() for _ in range(r.randrange(1, 40))] if r.random() < 0.5 else {"k": "x" * r.randrange(1, 200)})
        del keep[::2]
    out = []
    for item in job["jobs"]:
        res = nm.compile_source(item["src"], item["args"], name=item["name"], hygiene=False)
        if not item.get("report"):
            continue
        d = {"name": item["name"], "status": res.status, "exc_type": res.exc_type, "exc_msg": (res.exc_msg or "")[:300]}
        if res.ok:
            d["prog"] = cdrv.Prog(res).to_dict()
        out.append(d)
    json.dump(out, sys.stdout)


if __name__ == "__main__":
    main()
