"""Drive the real compiler from /repo's working tree, in-process, mirroring main()."""
import importlib.util
import os
import signal
import sys

from .common import REPO

_mod = None


def nmfu():
    """Load /repo/nmfu.py by path (never a site-packages copy)."""
    global _mod
    if _mod is None:
        path = os.path.join(REPO, "nmfu.py")
        spec = importlib.util.spec_from_file_location("nmfu", path)
        m = importlib.util.module_from_spec(spec)
        sys.modules["nmfu"] = m
        spec.loader.exec_module(m)
        _mod = m
    return _mod


class Budget(Exception):
    pass


class WallClock(BaseException):
    pass


class StepMeter:
    """PY_START counter as the compiler's logical clock; raises Budget inside the compiler when exceeded."""
    TOOL = 4

    def __init__(self):
        self.count = 0
        self.limit = None
        self.on = False
        self._mon = sys.monitoring

    def _cb(self, code, off):
        self.count += 1
        if self.limit is not None and self.count > self.limit:
            self.limit = None
            raise Budget()

    def start(self, limit=None):
        self.count = 0
        self.limit = limit
        if not self.on:
            try:
                self._mon.use_tool_id(self.TOOL, "vf-steps")
            except ValueError:
                pass
            self._mon.register_callback(self.TOOL, self._mon.events.PY_START, self._cb)
            self._mon.set_events(self.TOOL, self._mon.events.PY_START)
            self.on = True

    def stop(self):
        if self.on:
            self._mon.set_events(self.TOOL, 0)
            self._mon.register_callback(self.TOOL, self._mon.events.PY_START, None)
            try:
                self._mon.free_tool_id(self.TOOL)
            except ValueError:
                pass
            self.on = False
        self.limit = None
        return self.count


METER = StepMeter()


class Result:
    __slots__ = ("status", "stage", "exc_type", "exc_msg", "exc_where", "header", "source", "dctx", "pctx",
                 "cctx", "name", "steps", "flags", "tb")

    def __init__(self):
        self.status = None      # accepted | rejected | internal | budget | wallclock
        self.stage = None
        self.exc_type = None
        self.exc_msg = None
        self.exc_where = None
        self.header = self.source = None
        self.dctx = self.pctx = self.cctx = None
        self.name = None
        self.steps = 0
        self.flags = None
        self.tb = None

    @property
    def ok(self):
        return self.status == "accepted"


def _where(tb):
    """innermost frame inside nmfu.py"""
    import traceback
    frames = traceback.extract_tb(tb)
    for fr in reversed(frames):
        if fr.filename.endswith("nmfu.py"):
            return f"{fr.name}:{fr.lineno}"
    return f"{frames[-1].name}" if frames else "?"


def _where_name(tb):
    import traceback
    frames = traceback.extract_tb(tb)
    for fr in reversed(frames):
        if fr.filename.endswith("nmfu.py"):
            return fr.name
    return frames[-1].name if frames else "?"


def reset_globals():
    """Memory hygiene between in-process compilations (the harness's own; C20 deliberately does not call it)."""
    m = nmfu()
    m.DFState.all_states.clear()
    m.DFA.all_state_machines.clear()


def _alarm(signum, frame):
    raise WallClock()


def compile_source(src, args=(), name="p0", budget=None, wall=45, codegen=True, keep=True, hygiene=True):
    """Compile nmfu source text with command-line args (list of str, without the filename).

    Classification (DESIGN 2.1): accepted / rejected (diagnosed error classes, message rendered) /
    internal (anything else, or str(e) raising) / budget / wallclock.
    """
    m = nmfu()
    import lark
    r = Result()
    r.name = name
    if hygiene:
        reset_globals()
    # main() raises the recursion limit before doing anything else: mirror it (C18 also drives the real command line)
    lim = getattr(m, "RECURSION_LIMIT", None)
    if lim and sys.getrecursionlimit() < lim:
        sys.setrecursionlimit(lim)
    old = signal.signal(signal.SIGALRM, _alarm)
    signal.alarm(wall)
    if budget is not None:
        METER.start(budget)
    try:
        try:
            r.stage = "options"
            try:
                m.ProgramData.load_commandline_flags([*args, name + ".nmfu"])
            except RuntimeError as e:
                r.status = "rejected"; r.exc_type = "RuntimeError"; r.exc_msg = str(e)
                return r
            r.flags = dict(m.ProgramData._flags)
            m.ProgramData.load_source(src)
            r.stage = "syntax"
            try:
                pt = m.parser.parse(src, start="start")
            except lark.LarkError as e:
                r.status = "rejected"; r.exc_type = "LarkError"; r.exc_msg = str(e)[:300]
                return r
            r.stage = "parse"
            pctx = m.ParseCtx(pt)
            try:
                pctx.parse()
                r.stage = "compile"
                dctx = m.DfaCompileCtx(pctx)
                dctx.compile()
                if codegen:
                    r.stage = "codegen"
                    cctx = m.CodegenCtx(dctx, name)
                    r.header = cctx.generate_header()
                    r.source = cctx.generate_source()
                    if keep:
                        r.cctx = cctx
            except m.NMFUError as e:
                r.exc_type = type(e).__name__
                try:
                    r.exc_msg = str(e)
                    r.status = "rejected"
                except Budget:
                    raise
                except Exception as e2:   # message cannot be rendered
                    r.status = "internal"
                    r.exc_type = f"str({type(e).__name__})->{type(e2).__name__}"
                    r.exc_msg = repr(e2)[:300]
                    r.exc_where = _where_name(e2.__traceback__)
                return r
            if keep:
                r.pctx = pctx
                r.dctx = dctx
            r.status = "accepted"
            return r
        except Budget:
            r.status = "budget"
            return r
        except WallClock:
            r.status = "wallclock"
            return r
        except SystemExit as e:
            r.status = "internal"; r.exc_type = "SystemExit"; r.exc_msg = repr(e); r.exc_where = "exit"
            return r
        except Exception as e:
            r.status = "internal"
            r.exc_type = type(e).__name__
            r.exc_msg = str(e)[:300]
            r.exc_where = _where_name(e.__traceback__)
            r.tb = _where(e.__traceback__)
            return r
    finally:
        signal.alarm(0)
        signal.signal(signal.SIGALRM, old)
        if budget is not None:
            r.steps = METER.stop()
