"""Harness AST for nmfu programs, pretty-printer to nmfu source, and seeded program generators.

The reference interpreter (ri.py) runs on this AST, never on nmfu's own parse.
"""
import string

from . import rx


class N:
    """AST node: kind + attributes."""
    def __init__(self, kind, **kw):
        self.kind = kind
        self.__dict__.update(kw)

    def __repr__(self):
        return "N(%s %s)" % (self.kind, {k: v for k, v in self.__dict__.items() if k != "kind"})


# ---------------------------------------------------------------------------------------------------
# literal spelling
# ---------------------------------------------------------------------------------------------------
def spell_string(bs, hexall=False):
    """bytes -> nmfu string literal body using the documented escapes"""
    out = ""
    for b in bs:
        c = chr(b)
        if hexall:
            out += "\\x%02x" % b
        elif c == '"':
            out += '\\"'
        elif c == "\\":
            out += "\\\\"
        elif b == 10:
            out += "\\n"
        elif b == 13:
            out += "\\r"
        elif b == 9:
            out += "\\t"
        elif b == 8:
            out += "\\b"
        elif b == 0:
            out += "\\0"
        elif 32 <= b < 127 and c != "/":
            out += c
        else:
            out += "\\x%02x" % b
    return '"' + out + '"'


def spell_binary(bs):
    return '"' + " ".join("%02x" % b for b in bs) + '"b'


def pat_src(p):
    k = p.kind
    if k == "lit":
        if p.form == "b":
            return spell_binary(p.bs)
        return spell_string(p.bs) + ("i" if p.form == "i" else "")
    if k == "rx":
        return rx.src(p.tree, p.binary)
    if k == "end":
        return "end"
    if k == "concat":
        out = []
        for i, x in enumerate(p.parts):
            nxt = p.parts[i + 1] if i + 1 < len(p.parts) else None
            if x.kind == "lit" and x.form == "s" and nxt is not None and nxt.kind == "rx" and nxt.binary:
                # `"ab" b/../` would lex as the binary string "ab"b: spell the literal in binary form instead
                out.append(spell_binary(x.bs))
            else:
                out.append(pat_src(x))
        return "(" + " ".join(out) + ")"
    if k == "ref":      # macro argument reference
        return p.name
    raise ValueError(k)


def pat_sem(p, env=None):
    """semantic regex of a pattern (END-aware)"""
    k = p.kind
    if k == "lit":
        return rx.casei(p.bs) if p.form == "i" else rx.lit(p.bs)
    if k == "rx":
        return rx.to_sem(p.tree)
    if k == "end":
        return rx.ENDSYM
    if k == "concat":
        return rx.seq(*[pat_sem(x, env) for x in p.parts])
    if k == "ref":
        return pat_sem(p.target if hasattr(p, "target") else env[p.name], env)
    raise ValueError(k)


# ---------------------------------------------------------------------------------------------------
# expressions
# ---------------------------------------------------------------------------------------------------
PREC = {"||": 1, "&&": 2, "|": 3, "^": 4, "&": 5, "==": 6, "!=": 6, "<": 6, ">": 6, "<=": 6, ">=": 6,
        "<<": 7, ">>": 7, "+": 8, "-": 8, "*": 9, "/": 9, "%": 9}
NONASSOC = {6, 7}   # single comparison, single shift per grammar


def expr_src(e, parent_prec=0, right=False, minimal=True):
    k = e.kind
    if k == "num":
        return e.text
    if k == "chr":
        return e.text
    if k == "bool":
        return "true" if e.v else "false"
    if k == "var":
        return e.name
    if k == "len":
        return e.name + ".len"
    if k == "idx":
        return "%s[%s]" % (e.name, expr_src(e.e, 0, minimal=minimal))
    if k == "last":
        return "$last"
    if k == "ref":
        return e.name
    if k in ("not", "neg"):
        inner = e.a
        s = expr_src(inner, 99, minimal=minimal)
        if inner.kind in ("bin", "not", "neg") or (inner.kind == "num" and inner.text[0] in "+-"):
            if not s.startswith("("):
                s = "(" + s + ")"
        out = ("!" if k == "not" else "-") + s
        # unary binds to atoms only; as an operand it is a math_unary which is fine anywhere
        return out
    if k == "bin":
        p = PREC[e.op]
        a = expr_src(e.a, p, False, minimal)
        b = expr_src(e.b, p, True, minimal)
        s = "%s %s %s" % (a, e.op, b)
        need = (not minimal) or p < parent_prec or (p == parent_prec and (right or p in NONASSOC))
        return "(" + s + ")" if need else s
    raise ValueError(k)


# ---------------------------------------------------------------------------------------------------
# statements / program printer
# ---------------------------------------------------------------------------------------------------
def stmts_src(stmts, ind):
    return "".join(stmt_src(s, ind) for s in stmts)


def stmt_src(s, ind=1):
    pad = " " * ind
    k = s.kind
    if k == "match":
        return pad + pat_src(s.p) + ";\n"
    if k == "wait":
        return pad + "wait " + pat_src(s.p) + ";\n"
    if k == "assign":
        v = s.e
        if v.kind in ("num", "chr", "bool", "enumc", "ref") and not getattr(s, "force_math", False):
            t = v.name if v.kind in ("enumc", "ref") else expr_src(v)
            return pad + "%s = %s;\n" % (s.var, t)
        return pad + "%s = [%s];\n" % (s.var, expr_src(v))
    if k == "assignstr":
        return pad + "%s = %s;\n" % (s.var, spell_string(s.bs, getattr(s, "hexall", False)))
    if k == "appendm":
        return pad + "%s += %s;\n" % (s.var, pat_src(s.p))
    if k == "appendc":
        return pad + "%s += [%s];\n" % (s.var, expr_src(s.e))
    if k == "delete":
        return pad + "delete %s;\n" % s.var
    if k == "hook":
        return pad + "%s();\n" % s.name
    if k == "break":
        return pad + ("break %s;\n" % s.label if s.label else "break;\n")
    if k == "finish":
        return pad + ("finish %s;\n" % s.code if s.code else "finish;\n")
    if k == "yield":
        return pad + "yield %s;\n" % s.code
    if k == "loop":
        return pad + "loop %s{\n" % (s.label + " " if s.label else "") + stmts_src(s.body, ind + 1) + pad + "}\n"
    if k == "optional":
        return pad + "optional {\n" + stmts_src(s.body, ind + 1) + pad + "}\n"
    if k == "try":
        opts = "" if s.reasons is None else " (" + ", ".join(s.reasons) + ")"
        return (pad + "try {\n" + stmts_src(s.body, ind + 1) + pad + "}\n" + pad + "catch" + opts + " {\n" +
                stmts_src(s.handler, ind + 1) + pad + "}\n")
    if k == "foreach":
        return (pad + "foreach {\n" + stmts_src(s.body, ind + 1) + pad + "} do {\n" + stmts_src(s.do, ind + 1) + pad + "}\n")
    if k == "if":
        out = ""
        for i, (c, body) in enumerate(s.branches):
            out += pad + ("if " if i == 0 else "elif ") + expr_src(c) + " {\n" + stmts_src(body, ind + 1) + pad + "}\n"
        if s.orelse is not None:
            out += pad + "else {\n" + stmts_src(s.orelse, ind + 1) + pad + "}\n"
        return out
    if k == "case":
        out = pad + ("greedy case {\n" if s.greedy else "case {\n")
        for cl in s.clauses:
            preds = ", ".join("else" if p == "else" else pat_src(p) for p in cl.preds)
            pr = ("prio %d " % cl.prio) if (s.greedy and cl.prio is not None) else ""
            out += pad + " " + pr + preds + " -> {\n" + stmts_src(cl.body, ind + 2) + pad + " }\n"
        return out + pad + "}\n"
    if k == "call":
        return pad + "%s(%s);\n" % (s.name, ", ".join(arg_src(a) for a in s.args))
    if k == "raw":
        return pad + s.text + "\n"
    raise ValueError(k)


def arg_src(a):
    if isinstance(a, str):
        return a
    if a.kind in ("lit", "rx", "end", "concat"):
        return pat_src(a)
    if a.kind in ("num", "chr", "bool"):
        return expr_src(a)
    if a.kind == "ref":
        return a.name
    if a.kind == "strc":
        return spell_string(a.bs)
    return "[" + expr_src(a) + "]"


def out_src(o):
    t = o.typ
    if t == "int":
        attrs = []
        if o.signed is not None:
            attrs.append("signed" if o.signed else "unsigned")
        if o.width is not None:
            attrs.append("size %d" % o.width)
        ty = "int" + ("{" + ", ".join(attrs) + "}" if attrs else "")
    elif t == "bool":
        ty = "bool"
    elif t == "enum":
        ty = "enum{" + ",".join(o.values) + "}"
    elif t == "str":
        ty = "str[%d]" % o.size
    elif t == "ustr":
        ty = "unterminated str[%d]" % o.size
    elif t == "raw":
        ty = "raw{%s}" % o.raw_type
    d = ""
    if getattr(o, "default", None) is not None:
        dv = o.default
        if isinstance(dv, (bytes, bytearray)):
            d = " = " + (spell_binary(dv) if getattr(o, "default_form", "s") == "b" else spell_string(dv, getattr(o, "hexall", False)))
        elif isinstance(dv, bool):
            d = " = " + ("true" if dv else "false")
        elif isinstance(dv, str):
            d = " = " + dv
        else:
            d = " = %d" % dv
    return "out %s %s%s;\n" % (ty, o.name, d)


def prog_src(prog):
    out = ""
    if prog.args:
        out += "// args: " + " ".join(prog.args) + "\n"
    for o in prog.outs:
        out += out_src(o)
    for h in prog.hooks:
        out += "hook %s;\n" % h
    if prog.fcodes:
        out += "finishcode " + ", ".join(prog.fcodes) + ";\n"
    if prog.ycodes:
        out += "yieldcode " + ", ".join(prog.ycodes) + ";\n"
    for t in getattr(prog, "rawdecls", []):
        out += t + "\n"
    for m in prog.macros:
        out += "macro %s(%s) {\n" % (m.name, ", ".join("%s %s" % (k, n) for k, n in m.params)) + stmts_src(m.body, 1) + "}\n"
    out += "parser {\n" + stmts_src(prog.body, 1) + "}\n"
    return out


# ---------------------------------------------------------------------------------------------------
# helpers on patterns
# ---------------------------------------------------------------------------------------------------
def tail_open(sem, cap=300):
    """bytes c such that some w in L(sem) has deriv(sem, w.c) live: the statement can continue on c after it could end"""
    seen = {sem}
    todo = [sem]
    out = set()
    while todo and len(seen) < cap:
        q = todo.pop()
        f = rx.first(q)
        if rx.nullable(q):
            out |= f
        # explore by class representatives of q's own sets
        parts = rx.partition(rx.sets_in(q))
        for part in parts:
            c = min(part)
            if c in f:
                d = rx.deriv(q, c)
                if d not in seen:
                    seen.add(d)
                    todo.append(d)
    return out - {rx.END}


def sem_equiv(a, b, cap=400):
    """language equality of two derivative states (bisimulation over class representatives); True when the budget runs out -
    callers use this to *exclude* programs, so the doubtful answer is the excluding one"""
    seen = set()
    todo = [(a, b)]
    while todo:
        x, y = todo.pop()
        if x == y or (x, y) in seen:
            continue
        if rx.nullable(x) != rx.nullable(y):
            return False
        seen.add((x, y))
        if len(seen) > cap:
            return True
        for part in rx.partition(rx.sets_in(x) | rx.sets_in(y)):
            c = min(part)
            dx, dy = rx.deriv(x, c), rx.deriv(y, c)
            if (dx == rx.EMPTY) != (dy == rx.EMPTY):
                return False
            if dx != rx.EMPTY:
                todo.append((dx, dy))
    return True


def reentrant(sem, cap=200):
    """some non-empty string brings the pattern back to a state with the language of its initial state (nmfu minimises regex
    automata, so such a state *is* the initial state there)"""
    seen = set()
    todo = [sem]
    first = True
    while todo and len(seen) < cap:
        q = todo.pop()
        for part in rx.partition(rx.sets_in(q)):
            c = min(part)
            d = rx.deriv(q, c)
            if d == rx.EMPTY:
                continue
            if d == sem or (rx.nullable(d) == rx.nullable(sem) and rx.first(d) == rx.first(sem) and sem_equiv(d, sem)):
                return True
            if d not in seen:
                seen.add(d)
                todo.append(d)
    return False


def _leads_with_action(s):
    """a block statement whose first executed statement is an action (try / loop / foreach bodies, if branches)"""
    k = s.kind
    if k in ("try", "loop", "foreach"):
        body = s.body
        return bool(body) and (body[0].kind in ACTION_KINDS or _leads_with_action(body[0]))
    if k == "if":
        return any(b and (b[0].kind in ACTION_KINDS or _leads_with_action(b[0])) for _, b in s.branches) or bool(s.orelse and (s.orelse[0].kind in ACTION_KINDS or _leads_with_action(s.orelse[0])))
    return False


def is_open(sem):
    return bool(tail_open(sem))


def walk(stmts, fn):
    """call fn(node) for every statement and pattern recursively"""
    for s in stmts:
        fn(s)
        k = s.kind
        if k in ("loop", "optional"):
            walk(s.body, fn)
        elif k == "try":
            walk(s.body, fn); walk(s.handler, fn)
        elif k == "foreach":
            walk(s.body, fn); walk(s.do, fn)
        elif k == "if":
            for _, b in s.branches:
                walk(b, fn)
            if s.orelse is not None:
                walk(s.orelse, fn)
        elif k == "case":
            for cl in s.clauses:
                walk(cl.body, fn)


def patterns_of(stmts, acc=None):
    acc = [] if acc is None else acc

    def fn(s):
        if s.kind in ("match", "wait", "appendm"):
            acc.append(s.p)
        elif s.kind == "case":
            for cl in s.clauses:
                for p in cl.preds:
                    if p != "else":
                        acc.append(p)
    walk(stmts, fn)
    return acc


def kinds_of(prog):
    ks = {}

    def fn(s):
        key = s.kind
        if s.kind == "case" and s.greedy:
            key = "gcase"
        ks[key] = ks.get(key, 0) + 1
    walk(prog.body, fn)
    for m in getattr(prog, "macros", []):
        walk(m.body, fn)
    return ks


def byte_classes(prog, extra=()):
    """representatives of the partition of 0..255 induced by every byte set the program mentions"""
    sets = set()
    bodies = [prog.body] + [m.body for m in prog.macros]
    for body in bodies:
        for p in patterns_of(body):
            try:
                sets |= rx.sets_in(pat_sem(p, getattr(prog, "menv", None)))
            except Exception:
                pass

    def consts(e):
        if e is None:
            return
        if e.kind in ("num", "chr") and 0 <= e.v < 256:
            sets.add(frozenset([e.v]))
        for a in ("a", "b", "e"):
            if hasattr(e, a) and isinstance(getattr(e, a), N):
                consts(getattr(e, a))

    def fn(s):
        if s.kind in ("assign", "appendc"):
            consts(s.e)
        elif s.kind == "if":
            for c, _ in s.branches:
                consts(c)
    for body in bodies:
        walk(body, fn)
    for b in extra:
        sets.add(frozenset([b]))
    parts = rx.partition(sets)
    reps = sorted(min(p) for p in parts)
    return reps


# ---------------------------------------------------------------------------------------------------
# program generator
# ---------------------------------------------------------------------------------------------------
LETTERS = [ord(c) for c in "abcde"]
DIGITS = [ord(c) for c in "012"]
DELIMS = [ord(c) for c in "; \n"]
ALPHA = LETTERS + DIGITS + DELIMS

DEFAULT_PROFILE = dict(
    depth=3, maxstmts=4,
    w=dict(match=30, appendm=8, wait=3, assign=8, assignstr=3, appendc=3, delete=2, hook=8, finish=3, yield_=0,
           loop=6, case=8, gcase=0, optional=6, try_=7, foreach=4, if_=5, break_=0),
    eof=False, yields=False, close_paths=True, hazards=False, strict_after_open=0.05,
    str_defaults=0.0, str_default_too_long=0.0, assign_high_bytes=0.0, big_caps=0.0,
    no_action_after_open=False,     # RI profiles: a non-strict action right after an open-ended statement is applied speculatively by nmfu
    optional_nonreentrant=False,    # RI profiles: see known finding "optional start state re-entered"
    str_caps=(1, 2, 3, 4, 6), regex_prob=0.35, casei_prob=0.1, binary_prob=0.08, high_bytes=0.05,
)


class Gen:
    def __init__(self, rng, profile=None):
        self.rng = rng
        self.p = dict(DEFAULT_PROFILE)
        if profile:
            w = dict(self.p["w"])
            w.update(profile.get("w", {}))
            self.p.update(profile)
            self.p["w"] = w
        self.nloop = 0

    # -- declarations ------------------------------------------------------------------------------
    def decls(self):
        rng = self.rng
        outs = []
        nint = rng.randrange(1, 3)
        for i in range(nint):
            signed = rng.choice([None, True, False])
            width = rng.choice([None, None, 1, 2, 4, 8])
            d = rng.choice([None, 0, 1, 7])
            if width == 8 and signed is False:
                width = 4
            outs.append(N("out", name="i%d" % i, typ="int", signed=signed, width=width, default=d))
        outs.append(N("out", name="b0", typ="bool", default=rng.choice([None, False, True])))
        if rng.random() < 0.5:
            outs.append(N("out", name="e0", typ="enum", values=["EA", "EB", "EC"], default=None))
        nstr = rng.randrange(1, 3)
        for i in range(nstr):
            cap = rng.choice(self.p["str_caps"])
            term = rng.random() < 0.7
            if term and cap < 2:
                cap = 2
            if rng.random() < self.p["big_caps"]:
                cap = rng.choice([255, 256, 257])
            default = None
            if rng.random() < self.p["str_defaults"]:
                eff = cap - 1 if term else cap
                n = rng.choice([0, max(0, eff - 1), eff])
                if rng.random() < self.p["str_default_too_long"]:
                    n = eff + 1
                n = min(n, 12) if cap < 200 else n
                default = bytes(self.str_byte() for _ in range(n))
            o = N("out", name="s%d" % i, typ="str" if term else "ustr", size=cap, default=default)
            if default is not None and rng.random() < 0.2 and default:
                o.default_form = "b"
            outs.append(o)
        if rng.random() < 0.25:
            outs.append(N("out", name="r0", typ="raw", raw_type=rng.choice(["uint16_t", "uint32_t", "uint8_t"]), default=None))
        hooks = ["h%d" % i for i in range(rng.randrange(1, 4))]
        fcodes = ["F%d" % i for i in range(rng.randrange(0, 3))]
        ycodes = ["Y%d" % i for i in range(rng.randrange(1, 3))] if self.p["yields"] else []
        return outs, hooks, fcodes, ycodes

    def str_byte(self):
        if self.rng.random() < self.p["assign_high_bytes"]:
            return self.rng.choice([0x80, 0xe9, 0xff, 0x01, 0x7f])
        return self.rng.choice(ALPHA)

    # -- patterns ----------------------------------------------------------------------------------
    def first_byte(self, avoid, pool=None):
        pool = [b for b in (pool or ALPHA) if b not in avoid]
        if not pool:
            pool = [b for b in range(33, 127) if b not in avoid and chr(b) not in "\"'/\\" ] or ALPHA
        return self.rng.choice(pool)

    def literal(self, avoid, maxlen=3):
        rng = self.rng
        n = rng.choice([1, 1, 2, 2, 3][:max(1, maxlen + 2)])
        bs = [self.first_byte(avoid)]
        for _ in range(n - 1):
            if rng.random() < self.p["high_bytes"]:
                bs.append(rng.choice([0x00, 0x80, 0xe9, 0xff]))
            else:
                bs.append(rng.choice(ALPHA))
        bs = bytes(bs)
        r = rng.random()
        form = "s"
        if r < self.p["casei_prob"]:
            form = "i"
        elif r < self.p["casei_prob"] + self.p["binary_prob"]:
            form = "b"
        if form == "i" and any(chr(b) in string.ascii_letters and (b ^ 0x20) in avoid for b in bs[:1]):
            form = "s"
        return N("lit", bs=bs, form=form)

    def regex(self, avoid):
        rng = self.rng
        for _ in range(8):
            binary = rng.random() < 0.15
            tree = rx.gen(rng, LETTERS + DIGITS if not binary else LETTERS + DIGITS + [0, 0xff, 0x80], depth=rng.choice([1, 2, 2, 3]), binary=binary)
            sem = rx.to_sem(tree)
            if sem == rx.EMPTY or sem == rx.EPS or rx.nullable(sem):
                continue
            if rx.first(sem) & set(avoid):
                continue
            if rx.expanded_size(tree) > self.p.get("rx_max_size", 24):
                continue        # compile time only: nmfu minimises regex automata with a cubic-ish refinement
            if rx.has_empty_set(tree):
                continue        # known finding K1 (late mismatch with an unsatisfiable class) belongs to C07
            return N("rx", tree=tree, binary=binary)
        return self.literal(avoid)

    def pattern(self, avoid, allow_end=False):
        rng = self.rng
        r = rng.random()
        if allow_end and self.p["eof"] and r < self.p.get("end_prob", 0.12):
            return N("end")
        if r < self.p["regex_prob"]:
            return self.regex(avoid)
        if r < self.p["regex_prob"] + 0.08:
            a = self.literal(avoid)
            b = self.literal(set()) if rng.random() < 0.6 else self.regex(set())
            if a.form == "s" and b.kind == "rx" and b.binary:
                a = N("lit", bs=a.bs, form="b")
            parts = [a, b]
            if self.p["eof"] and rng.random() < 0.3:
                parts.append(N("end"))
            return N("concat", parts=parts)
        return self.literal(avoid)

    # -- expressions (small, well-typed; C14 has its own generator) --------------------------------
    def int_expr(self, ctx, depth=2, allow_last=False):
        rng = self.rng
        r = rng.random()
        ints = [o for o in ctx["outs"] if o.typ == "int"]
        bufs = [o for o in ctx["outs"] if o.typ in ("str", "ustr", "raw")]
        if depth <= 0 or r < 0.35:
            q = rng.random()
            if q < 0.35:
                v = rng.choice([0, 1, 2, 3, 10, 48, 255, 1000])
                return N("num", v=v, text=rng.choice([str(v), hex(v), bin(v)]) if v >= 0 else str(v))
            if q < 0.45:
                c = rng.choice("ab01")
                return N("chr", v=ord(c), text="'%s'" % c)
            if q < 0.75 and ints:
                return N("var", name=rng.choice(ints).name, sort="int")
            if q < 0.85 and bufs:
                return N("len", name=rng.choice(bufs).name)
            if q < 0.93 and bufs:
                iv = rng.choice([0, 1, 5])
                return N("idx", name=rng.choice(bufs).name, e=N("num", v=iv, text=str(iv)))
            if allow_last:
                return N("last")
            return N("num", v=1, text="1")
        op = rng.choice(["+", "-", "*", "+", "&", "|", "^"])
        return N("bin", op=op, a=self.int_expr(ctx, depth - 1, allow_last), b=self.int_expr(ctx, depth - 1, allow_last))

    def bool_expr(self, ctx, depth=1, allow_last=False):
        rng = self.rng
        r = rng.random()
        bools = [o for o in ctx["outs"] if o.typ == "bool"]
        if r < 0.6 or depth <= 0:
            return N("bin", op=rng.choice(["==", "!=", "<", ">", "<=", ">="]),
                     a=self.int_expr(ctx, 1, allow_last), b=self.int_expr(ctx, 1, allow_last))
        if r < 0.7 and bools:
            return N("var", name=rng.choice(bools).name, sort="bool")
        if r < 0.8:
            return N("not", a=self.bool_expr(ctx, depth - 1, allow_last))
        return N("bin", op=rng.choice(["&&", "||"]), a=self.bool_expr(ctx, depth - 1, allow_last), b=self.bool_expr(ctx, depth - 1, allow_last))

    # -- statements --------------------------------------------------------------------------------
    def action(self, ctx, strict_ok=True, in_foreach=False, after_match=False):
        """a non-consuming statement"""
        rng = self.rng
        w = self.p["w"]
        choices = []
        outs = ctx["outs"]
        ints = [o for o in outs if o.typ == "int"]
        strs = [o for o in outs if o.typ in ("str", "ustr")]
        bufs = strs + [o for o in outs if o.typ == "raw"]
        choices.append(("assign", w["assign"]))
        if strs:
            choices.append(("assignstr", w["assignstr"]))
        if bufs:
            choices.append(("delete", w["delete"]))
        if strict_ok:
            choices.append(("hook", w["hook"]))
            if bufs:
                choices.append(("appendc", w["appendc"]))
        kind = self.pick(choices)
        allow_last = in_foreach or after_match
        if kind == "assign":
            r = rng.random()
            enums = [o for o in outs if o.typ == "enum"]
            bools = [o for o in outs if o.typ == "bool"]
            if r < 0.15 and enums:
                o = rng.choice(enums)
                return N("assign", var=o.name, e=N("enumc", name=rng.choice(o.values)))
            if r < 0.3 and bools:
                o = rng.choice(bools)
                if rng.random() < 0.5:
                    return N("assign", var=o.name, e=N("bool", v=rng.random() < 0.5))
                return N("assign", var=o.name, e=self.bool_expr(ctx, 1, allow_last))
            o = rng.choice(ints)
            if rng.random() < 0.3:
                v = rng.choice([0, 1, 5, 100])
                return N("assign", var=o.name, e=N("num", v=v, text=str(v)))
            e = self.int_expr(ctx, 2, allow_last)
            if not strict_ok and self.mentions(e, o.name):
                e = N("num", v=3, text="3")
            return N("assign", var=o.name, e=e)
        if kind == "assignstr":
            o = rng.choice(strs)
            cap = o.size - 1 if o.typ == "str" else o.size
            n = rng.randrange(0, max(1, cap) + 1)
            n = min(n, cap)
            bs = bytes(self.str_byte() for _ in range(n))
            return N("assignstr", var=o.name, bs=bs)
        if kind == "delete":
            return N("delete", var=rng.choice(bufs).name)
        if kind == "hook":
            return N("hook", name=rng.choice(ctx["hooks"]))
        if kind == "appendc":
            o = rng.choice(bufs)
            return N("appendc", var=o.name, e=self.int_expr(ctx, 1, allow_last))
        raise AssertionError(kind)

    def mentions(self, e, name):
        if e.kind in ("var", "len", "idx") and e.name == name:
            return True
        return any(isinstance(getattr(e, a, None), N) and self.mentions(getattr(e, a), name) for a in ("a", "b", "e"))

    def pick(self, choices):
        tot = sum(wt for _, wt in choices)
        r = self.rng.random() * tot
        for k, wt in choices:
            r -= wt
            if r <= 0:
                return k
        return choices[-1][0]

    def block(self, ctx, depth, avoid, must_start_match=False, nmax=None, tail_closed=False):
        """returns (stmts, open_bytes_after) ; open_bytes_after = bytes on which the block may still continue"""
        rng = self.rng
        n = rng.randrange(1, min(nmax or self.p["maxstmts"], depth + 2) + 1)
        stmts = []
        open_after = set(avoid)     # bytes the next match must not start with
        prev_open = False           # previous statement ends by lookahead (strict actions unschedulable)
        terminated = False
        self._prev_kind = None
        for i in range(n):
            first = (i == 0)
            want_match = must_start_match if first else False
            self._after_match = bool(stmts) and stmts[-1].kind in ("match", "appendm")
            s, o, is_open_, term = self.statement(ctx, depth, open_after, want_match, prev_open, first)
            if s is None:
                continue
            if self.p["no_action_after_open"] and s.kind in ACTION_KINDS and prev_open:
                if prev_open is True or s.kind not in STRICT_KINDS:
                    continue
            if self.p["no_action_after_open"] and prev_open and _leads_with_action(s):
                continue        # the same construct one level down: `r += /20+/; try { s = "x"; ..` - the block's first statement is the action
            stmts.append(s)
            if s.kind in ACTION_KINDS:
                # actions neither consume nor change what the next match must avoid
                pass
            else:
                open_after = o
                prev_open = is_open_
            if term:
                terminated = True
                break
        if not stmts or (must_start_match and stmts[0].kind in ACTION_KINDS):
            lit = N("match", p=self.literal(avoid))
            stmts.insert(0, lit)
            if len(stmts) == 1:
                open_after, prev_open = set(), False
        if tail_closed and not terminated and (prev_open or open_after):
            stmts.append(N("match", p=N("lit", bs=bytes([self.first_byte(open_after, DELIMS + LETTERS)]), form="s")))
            open_after, prev_open = set(), False
        return stmts, open_after, prev_open, terminated

    def statement(self, ctx, depth, avoid, want_match, prev_open, first):
        """returns (stmt, open_bytes_after, ends_by_lookahead, terminates_block)"""
        rng = self.rng
        w = self.p["w"]
        choices = [("match", w["match"]), ("appendm", w["appendm"] if any(o.typ in ("str", "ustr", "raw") for o in ctx["outs"]) else 0),
                   ("wait", w["wait"])]
        if depth > 0 and want_match != "strict":
            choices += [("loop", w["loop"]), ("case", w["case"]), ("gcase", w["gcase"]), ("optional", w["optional"]),
                        ("try", w["try_"]), ("foreach", w["foreach"]), ("if", w["if_"])]
        if want_match == "strict":
            choices = choices[:2]
        if not want_match:
            choices += [("action", w["assign"] + w["hook"] + w["assignstr"] + w["appendc"] + w["delete"]),
                        ("finish", w["finish"]), ("yield", w["yield_"] if ctx["ycodes"] else 0)]
            if ctx["loops"]:
                choices.append(("break", max(w["break_"], 4)))
        kind = self.pick(choices)
        strict_ok = (not prev_open or prev_open == 2) or rng.random() < self.p["strict_after_open"]
        if kind == "match":
            p = self.pattern(avoid, allow_end=True)
            sem = pat_sem(p)
            return N("match", p=p), tail_open(sem), is_open(sem), False
        if kind == "appendm":
            o = rng.choice([o for o in ctx["outs"] if o.typ in ("str", "ustr", "raw")])
            p = self.regex(avoid) if rng.random() < 0.7 else self.literal(avoid)
            sem = pat_sem(p)
            return N("appendm", var=o.name, p=p), tail_open(sem), is_open(sem), False
        if kind == "wait":
            p = self.literal(set()) if rng.random() < 0.7 else self.regex(set())
            sem = pat_sem(p)
            return N("wait", p=p), tail_open(sem), is_open(sem), False
        if kind == "action":
            return self.action(ctx, strict_ok=strict_ok, after_match=getattr(self, "_after_match", False)), None, None, False
        if kind == "finish":
            if not strict_ok:
                return None, None, None, False
            code = rng.choice(ctx["fcodes"]) if ctx["fcodes"] and rng.random() < 0.6 else None
            return N("finish", code=code), None, None, True
        if kind == "yield":
            return N("yield", code=rng.choice(ctx["ycodes"])), None, None, False
        if kind == "break":
            if not strict_ok:
                return None, None, None, False
            lbls = ctx["loops"]
            lab = rng.choice(lbls)
            return N("break", label=lab if (lab and rng.random() < 0.6) else (None if lab == lbls[-1] or not lab else lab)), None, None, True
        if kind == "optional":
            body, o, po, term = self.block(ctx, depth - 1, avoid, must_start_match="strict", nmax=2)
            if self.p["optional_nonreentrant"] and body and body[0].kind in ("match", "appendm") and reentrant(pat_sem(body[0].p)):
                body[0] = N("match", p=self.literal(avoid))
                o, po = (set(), False) if len(body) == 1 else (o, po)
            firstsem = self.first_of(body)
            # 2 = "soft open": the optional's end is found by lookahead. Timing-strict actions after it are scheduled exactly once
            # (or refused); plain assignments would be applied eagerly, also on the path that then takes the optional
            return N("optional", body=body), set(o) | set(avoid) | firstsem, po or 2, False
        if kind == "loop":
            self.nloop += 1
            label = "l%d" % self.nloop if rng.random() < 0.5 else None
            ctx2 = dict(ctx, loops=ctx["loops"] + [label])
            # loop body: a case with a breaking clause, or an optional-free sequence with a conditional break
            body, o, po, term = self.loop_body(ctx2, depth - 1, avoid, label)
            return N("loop", label=label, body=body), set(), False, False
        if kind in ("case", "gcase"):
            return self.case(ctx, depth, avoid, greedy=(kind == "gcase"))
        if kind == "try":
            body, o, po, term = self.block(ctx, depth - 1, avoid, nmax=3, must_start_match=rng.random() < 0.7)
            if all(x.kind in ACTION_KINDS for x in body):
                body.insert(0, N("match", p=self.literal(avoid)))
            reasons = rng.choice([None, None, ["nomatch"], ["outofspace"], ["nomatch", "outofspace"]])
            if rng.random() < 0.15:
                handler = []
                o2, po2 = set(), False
            else:
                handler, o2, po2, _ = self.block(ctx, depth - 1, set(), nmax=2)
            return N("try", body=body, reasons=reasons, handler=handler), set(o) | set(o2), po or po2, False
        if kind == "foreach":
            saved_eof = self.p["eof"]
            self.p["eof"] = False
            self._in_foreach = getattr(self, "_in_foreach", 0) + 1
            try:
                body, o, po, term = self.block(ctx, 0, avoid, must_start_match="strict", nmax=2)
            finally:
                self.p["eof"] = saved_eof
                self._in_foreach -= 1
            if saved_eof:
                body = [s for s in body if s.kind != "wait"]
            body = [s for s in body if s.kind not in ("finish", "break")] or [N("match", p=self.literal(avoid))]
            do = [self.action(ctx, strict_ok=True, in_foreach=True) for _ in range(rng.randrange(1, 3))]
            o = set()
            po = False
            for s in body:
                if s.kind in ("match", "appendm", "wait"):
                    sem = pat_sem(s.p)
                    o, po = tail_open(sem), is_open(sem)
            return N("foreach", body=body, do=do), o, po, False
        if kind == "if":
            nb = rng.choice([1, 1, 2])
            branches = []
            os_, pos = set(), False
            for _ in range(nb):
                body, o, po, term = self.block(ctx, depth - 1, avoid, nmax=2)
                branches.append((self.bool_expr(ctx, 1) if rng.random() < 0.85 else self.int_expr(ctx, 1), body))
                os_ |= set(o); pos = pos or po
            orelse = None
            if rng.random() < 0.5:
                orelse, o, po, term = self.block(ctx, depth - 1, avoid, nmax=2)
                os_ |= set(o); pos = pos or po
            else:
                os_ |= set(avoid)
            return N("if", branches=branches, orelse=orelse), os_, pos, False
        raise AssertionError(kind)

    def first_of(self, body):
        for s in body:
            if s.kind in ("match", "appendm"):
                return set(rx.first(pat_sem(s.p))) - {rx.END}
            if s.kind in ACTION_KINDS:
                continue
            break
        return set()

    def loop_body(self, ctx, depth, avoid, label):
        rng = self.rng
        r = rng.random()
        if r < 0.6:
            # case with at least one breaking clause
            st, o, po, _ = self.case(ctx, depth + 1, avoid, greedy=False, force_break=True)
            pre = []
            if rng.random() < 0.3 and not self.p["no_action_after_open"]:
                pre = [self.action(ctx, strict_ok=True)]
            return pre + [st], o, po, False
        # sequence: match; ...; if cond { break; }   or   optional-less: match X; case-less break via try
        body, o, po, term = self.block(ctx, depth, avoid, must_start_match=True, nmax=2, tail_closed=True)
        body = [s for s in body if s.kind != "finish"]
        if not body or body[0].kind in ACTION_KINDS:
            body.insert(0, N("match", p=self.literal(avoid)))
        cond = self.bool_expr(ctx, 1, allow_last=False)
        body.append(N("if", branches=[(cond, [N("break", label=None)])], orelse=None))
        return body, set(), False, False

    def case(self, ctx, depth, avoid, greedy=False, force_break=False):
        rng = self.rng
        ncl = rng.randrange(2, 5)
        used = set(avoid)
        clauses = []
        os_, pos = set(), False
        has_else = False
        for i in range(ncl):
            preds = []
            npred = 1 if rng.random() < 0.75 else 2
            for _ in range(npred):
                if greedy and rng.random() < 0.6:
                    p = self.regex(set() if rng.random() < 0.5 else used)
                else:
                    p = self.pattern(used)
                sem = pat_sem(p)
                if not greedy:
                    used |= set(rx.first(sem)) - {rx.END}
                preds.append(p)
            if not has_else and rng.random() < 0.25:
                has_else = True
                if rng.random() < 0.5:
                    preds.append("else")
                else:
                    preds = ["else"]
            av = set()
            last_open = False
            for p in preds:
                if p != "else":
                    sem = pat_sem(p)
                    av |= tail_open(sem)
                    last_open = last_open or is_open(sem)
            if depth > 0 and rng.random() < 0.7:
                body, o, po, term = self.block(ctx, depth - 1, av, nmax=2)
                if last_open and body and body[0].kind in (ACTION_KINDS if self.p["no_action_after_open"] else STRICT_KINDS) and (self.p["no_action_after_open"] or rng.random() > self.p["strict_after_open"]):
                    body.insert(0, N("match", p=self.literal(av)))
            else:
                body, o, po = [], av, last_open
                if rng.random() < 0.5 and not last_open:
                    body = [self.action(ctx, strict_ok=True, after_match="else" not in preds)]
            if self.p["no_action_after_open"] and last_open and body and body[0].kind in ACTION_KINDS:
                body.insert(0, N("match", p=self.literal(av)))
            if force_break and i == ncl - 1 and not any(self.has_break(cl.body) for cl in clauses):
                body = [s for s in body if s.kind not in ("finish", "break")]
                if last_open and not body:
                    body = [N("match", p=self.literal(av))]
                body.append(N("break", label=None))
            os_ |= set(o); pos = pos or po
            prio = rng.choice([None, 0, 1, 2]) if greedy else None
            clauses.append(N("clause", preds=preds, body=body, prio=prio))
        return N("case", clauses=clauses, greedy=greedy), os_, pos, False

    def has_break(self, body):
        found = []
        walk(body, lambda s: found.append(1) if s.kind == "break" else None)
        return bool(found)

    # -- whole program -----------------------------------------------------------------------------
    def program(self, args=()):
        outs, hooks, fcodes, ycodes = self.decls()
        ctx = dict(outs=outs, hooks=hooks, fcodes=fcodes, ycodes=ycodes, loops=[])
        self.nloop = 0
        body, o, po, term = self.block(ctx, self.p["depth"], set(), must_start_match=self.rng.random() < 0.7,
                                       tail_closed=self.p["close_paths"])
        if all(x.kind in ACTION_KINDS for x in body):
            body.insert(0, N("match", p=self.literal(set())))
        a = list(args)
        if self.p["eof"] and "-feof-support" not in a:
            a.append("-feof-support")
        if ycodes and "-fyield-support" not in a:
            a.append("-fyield-support")
        return N("prog", outs=outs, hooks=hooks, fcodes=fcodes, ycodes=ycodes, macros=[], body=body, args=a)


ACTION_KINDS = {"assign", "assignstr", "appendc", "delete", "hook", "finish", "yield", "break"}
STRICT_KINDS = {"hook", "appendc", "finish", "break", "yield"}
