"""Trace normal forms shared by the differential monitors."""


def normal_form(run, prog):
    """[('H', hook, inval, off, snap, base, n) | ('Y', code, off, snap, base, n) | ('T', code, off, snap, base, n) | ('F', snap)
        | ('I', which, name) | ('P', repeat) | ('A', kind)]"""
    items = []
    for e in run.events:
        t = e[0]
        if t == "H":
            items.append(("H", e[1], e[2], e[3], e[4], e[5], e[6]))
        elif t == "R":
            kind, code = e[1], e[3]
            if code == 0:
                continue
            if prog.is_yield(code):
                items.append(("Y", code, e[4], e[7], e[8], e[9]))
            else:
                items.append(("T", code, e[4], e[7], e[8], e[9], kind))
        elif t == "N":
            items.append(("F", e[1]))
        elif t == "I":
            items.append(("I", e[1], e[2]))
        elif t == "P":
            items.append(("P", e[3]))
    if run.abort:
        items.append(("A", run.abort[0]))
    return items


def strip_chunk(item):
    """drop schedule-dependent fields (chunk base / length)"""
    t = item[0]
    if t == "H":
        return item[:5]
    if t in ("Y", "T"):
        return item[:4]
    return item


def describe(items, prog, limit=12):
    out = []
    for it in items[:limit]:
        t = it[0]
        if t == "H":
            out.append("hook %s(inval=%d)@%s {%s}" % (prog.hooks[it[1]] if it[1] < len(prog.hooks) else it[1], it[2], it[3], it[4]))
        elif t in ("Y", "T"):
            out.append("%s %s@%s {%s}" % ("yield" if t == "Y" else "terminal", prog.code_name(it[1]), it[2], it[3]))
        elif t == "F":
            out.append("final {%s}" % it[1])
        else:
            out.append(str(it))
    if len(items) > limit:
        out.append("... %d more" % (len(items) - limit))
    return out


def compositions(n):
    """all compositions of n into positive parts, as lists of chunk lengths"""
    if n == 0:
        return [[]]
    out = []
    for mask in range(1 << (n - 1)):
        parts = []
        cur = 1
        for i in range(n - 1):
            if mask >> i & 1:
                parts.append(cur)
                cur = 1
            else:
                cur += 1
        parts.append(cur)
        out.append(parts)
    return out


def split(bs, parts):
    out = []
    i = 0
    for p in parts:
        out.append(bs[i:i + p])
        i += p
    return out
