"""Reference interpreter: the procedural reading of docs/user-ref/parser.md over the harness AST (vf/gen.py).

One symbol of lookahead. Produces the ordered list of effects with, for each, the number of bytes consumed before it
('pos'), whether its timing is exact (per-character effects) and the output store after it. The trace checker
(check_trace) compares this with the events the emitted C produced under the explicit slack rules of DESIGN.md 2.5.
"""
from . import carith, gen, rx

END = rx.END


class NoMatch(Exception):
    pass


class OutOfSpace(Exception):
    pass


class Exhausted(Exception):
    pass


class Finished(Exception):
    def __init__(self, code):
        self.code = code


class BreakLoop(Exception):
    def __init__(self, loop):
        self.loop = loop


class Unknown(Exception):
    """the reading is not defined here (user-requested UB, construct outside the modelled subset)"""


class Effect:
    __slots__ = ("kind", "data", "pos", "exact", "snap", "droppable", "inval_ok")

    def __init__(self, kind, data, pos, exact, snap, droppable):
        self.kind = kind          # hook | yield | finish | fail | set | break
        self.data = data
        self.pos = pos
        self.exact = exact
        self.snap = snap          # store after the effect
        self.droppable = droppable

    def __repr__(self):
        return "<%s %s @%d%s>" % (self.kind, self.data, self.pos, "!" if self.exact else "")


class Store:
    def __init__(self, outs):
        self.outs = outs
        self.by = {o.name: o for o in outs}
        self.v = {}
        for o in outs:
            if o.typ in ("str", "ustr"):
                buf = bytearray(o.size)
                n = 0
                if getattr(o, "default", None) is not None:
                    d = bytes(o.default)
                    buf[:len(d)] = d
                    n = len(d)
                self.v[o.name] = [buf, n]
            elif o.typ == "raw":
                self.v[o.name] = [bytearray(raw_size(o)), 0]
            elif o.typ == "enum":
                d = getattr(o, "default", None)
                self.v[o.name] = o.values.index(d) if d is not None else 0
            elif o.typ == "bool":
                self.v[o.name] = int(bool(getattr(o, "default", None) or 0))
            else:
                d = getattr(o, "default", None) or 0
                self.v[o.name] = carith.wrap(int(d), carith.ctype_of_out(o))

    def cap(self, o):
        if o.typ == "str":
            return o.size - 1
        if o.typ == "ustr":
            return o.size
        return raw_size(o)

    def snapshot(self):
        out = []
        for o in self.outs:
            x = self.v[o.name]
            if isinstance(x, list):
                out.append((o.name, x[1], bytes(x[0][:x[1]])))
            else:
                out.append((o.name, x))
        return tuple(out)

    def save(self):
        return {k: ([bytearray(x[0]), x[1]] if isinstance(x, list) else x) for k, x in self.v.items()}

    def restore(self, s):
        self.v = {k: ([bytearray(x[0]), x[1]] if isinstance(x, list) else x) for k, x in s.items()}

    def env(self, last):
        vals = {}
        e = carith.Env(self.outs, vals, last)
        for o in self.outs:
            x = self.v[o.name]
            if isinstance(x, list):
                vals[o.name] = bytes(x[0][:x[1]])
                e.full[o.name] = bytes(x[0])
            else:
                vals[o.name] = x
        return e


def raw_size(o):
    return {"uint8_t": 1, "int8_t": 1, "uint16_t": 2, "int16_t": 2, "uint32_t": 4, "int32_t": 4, "uint64_t": 8, "int64_t": 8}[o.raw_type]


def has_var(e, name):
    if not isinstance(e, gen.N):
        return False
    if e.kind in ("var", "len", "idx") and getattr(e, "name", None) == name:
        return True
    return any(has_var(getattr(e, f, None), name) for f in ("a", "b", "e"))


def has_last(e):
    if not isinstance(e, gen.N):
        return False
    if e.kind == "last":
        return True
    return any(has_last(getattr(e, f, None)) for f in ("a", "b", "e"))


class RI:
    def __init__(self, prog, inp, with_end=False, decisions=(), alt=()):
        self.prog = prog
        # alternate worlds, used only to classify a violation as a known finding (see check()):
        self.reread = "reread" in alt               # K6: handler re-reads the last consumed byte after an eager char-append overflow
        self.rewound = False
        self.stale_last = "stale_last" in alt       # K7: $last behind a yield is the next byte
        self.yield_pos = -1
        self.greedy_eager = "greedy_eager" in alt   # K9: leading non-strict actions of a greedy clause run when its pattern completes
        self.inp = list(inp) + ([END] if with_end else [])
        self.ndata = len(inp)
        self.with_end = with_end
        self.pos = 0
        self.store = Store(prog.outs)
        for o in prog.outs:
            if o.typ == "raw":
                o.raw_size = raw_size(o)
        self.effects = []
        self.last = 0
        self.decisions = list(decisions)   # per error event: how many pending effects to keep (None = all)
        self.error_events = []             # (pos, n_pending_droppable)
        self.journal = []                  # (effect index, store before) since the last consume
        self.ambiguities = []
        self.macros = {m.name: m for m in getattr(prog, "macros", [])}
        self.result = None                 # ('finish', code) | ('fail',) | ('exhausted',)
        self.fail_slack = False
        self.open_tail = False
        self.maybe_complete = False        # input ran out inside a statement that could already be complete
        self.foreach_stack = []
        self.in_byte = False
        self.flags = set()

    # -- plumbing ----------------------------------------------------------------------------------
    def peek(self):
        if self.pos >= len(self.inp):
            raise Exhausted()
        return self.inp[self.pos]

    def consume(self):
        c = self.inp[self.pos]
        self.pos += 1
        self.journal = []
        self.in_byte = False
        if c != END:
            self.last = c
        return c

    def take(self, c, on_char=None):
        """consume byte c: per-character effects first (they can still refuse the byte), then the byte counts as read"""
        if c != END:
            if on_char is not None:
                on_char(c, True)               # capacity check: may raise OutOfSpace, nothing has happened yet
            saved_last = self.last
            self.last = c
            self.in_byte = True                # exact effects emitted now belong to this byte
            try:
                if on_char is not None:
                    on_char(c, False)
                self.after_byte(c)
            except OutOfSpace:
                self.in_byte = False
                raise
        self.consume()

    def emit(self, kind, data, exact=False, droppable=True, before=None):
        e = Effect(kind, data, self.pos + (1 if (exact and getattr(self, "in_byte", False)) else 0), exact, self.store.snapshot(), droppable and not exact)
        self.effects.append(e)
        if not exact:
            self.journal.append((len(self.effects) - 1, before))
        return e

    def error(self, exc):
        """an error strikes at the current byte: pending (not yet necessarily executed) effects of this group may be lost"""
        pend = [(i, b) for i, b in self.journal if self.effects[i].droppable and b is not None]
        # only a suffix of the journal can be dropped, and only droppable ones
        k = 0
        for i, b in reversed(self.journal):
            if self.effects[i].droppable and b is not None:
                k += 1
            else:
                break
        self.error_events.append((self.pos, k))
        idx = len(self.error_events) - 1
        keep = self.decisions[idx] if idx < len(self.decisions) and self.decisions[idx] is not None else k
        drop = k - min(keep, k)
        if drop:
            first = self.journal[len(self.journal) - drop]
            self.store.restore(first[1])
            del self.effects[first[0]:]
            del self.journal[len(self.journal) - drop:]
        raise exc

    # -- expressions -------------------------------------------------------------------------------
    def ev(self, e):
        last = self.last
        if self.stale_last and self.yield_pos == self.pos and not self.in_byte and has_last(e):
            c = self.peek()                # the actions behind a yield run when the parser is resumed, with the next byte current
            if c != END:
                last = c
                self.flags.add("stale-last-applied")
        try:
            return carith.ev(e, self.store.env(last))
        except carith.UB as u:
            raise Unknown("user expression has undefined behaviour: %s" % u)

    # -- patterns ----------------------------------------------------------------------------------
    def do_match(self, sem, on_char=None, wait=False):
        q = sem
        start = sem
        while True:
            if rx.only_eps(q) and rx.nullable(q):
                return
            self.maybe_complete = rx.nullable(q)
            c = self.peek()
            self.maybe_complete = False
            d = rx.deriv(q, c)
            if d != rx.EMPTY:
                self.take(c, on_char)
                q = d
                continue
            if rx.nullable(q):
                return
            if wait:
                if c == END:
                    # end of input cannot stop a wait: the parse is incomplete
                    self.consume()
                    raise Exhausted()
                d = rx.deriv(start, c)
                if d != rx.EMPTY:
                    self.take(c, on_char)
                    q = d
                else:
                    self.take(c, None)
                    q = start
                continue
            self.error(NoMatch())

    # -- statements --------------------------------------------------------------------------------
    def block(self, stmts, loops):
        for s in stmts:
            self.stmt(s, loops)

    def buf_append(self, name, byte):
        o = self.store.by[name]
        x = self.store.v[name]
        x[0][x[1]] = byte & 0xFF
        x[1] += 1
        if o.typ == "str":
            x[0][x[1]] = 0

    def stmt(self, s, loops):
        k = s.kind
        st = self.store
        if k == "match":
            self.do_match(gen.pat_sem(s.p, self.menv()))
        elif k == "wait":
            self.do_match(gen.pat_sem(s.p, self.menv()), wait=True)
        elif k == "appendm":
            o = st.by[s.var]
            cap = st.cap(o)

            def on_char(c, before):
                if before:
                    if st.v[s.var][1] >= cap:
                        self.fail_slack = False
                        self.error(OutOfSpace())
                else:
                    self.buf_append(s.var, c)
                    self.emit("set", ("append", s.var), exact=True)
            self.do_match(gen.pat_sem(s.p, self.menv()), on_char=on_char)
        elif k == "assign":
            o = st.by[s.var]
            before = st.save()
            if s.e.kind == "enumc":
                st.v[s.var] = o.values.index(s.e.name)
            else:
                t, v = self.ev(s.e)
                if o.typ == "bool":
                    st.v[s.var] = carith.store((1, False), t, v)
                elif o.typ == "enum":
                    raise Unknown("arithmetic on enum")
                else:
                    st.v[s.var] = carith.store(carith.ctype_of_out(o), t, v)
            self.emit("set", ("assign", s.var), before=before)
        elif k == "assignstr":
            before = st.save()
            o = st.by[s.var]
            x = st.v[s.var]
            bs = bytes(s.bs)
            x[0][:len(bs)] = bs
            x[1] = len(bs)
            if o.typ == "str":
                x[0][len(bs)] = 0
            self.emit("set", ("assignstr", s.var), before=before)
        elif k == "appendc":
            o = st.by[s.var]
            t, v = self.ev(s.e)
            if st.v[s.var][1] >= st.cap(o):
                self.fail_slack = not self.in_byte
                if self.reread and not self.in_byte and 0 < self.pos <= self.ndata:
                    # K6: the append runs on the transition that consumed the previous byte and the handler is given that byte again
                    self.pos -= 1
                    self.rewound = True
                self.error(OutOfSpace())
            before = st.save()
            self.buf_append(s.var, v)
            self.emit("set", ("appendc", s.var), before=before)
        elif k == "delete":
            before = st.save()
            o = st.by[s.var]
            x = st.v[s.var]
            x[1] = 0
            if o.typ == "str":
                x[0][0] = 0
            self.emit("set", ("delete", s.var), before=before)
        elif k == "hook":
            self.emit("hook", s.name, before=st.save())
        elif k == "yield":
            if self.with_end and self.pos > self.ndata:
                self.flags.add("yield-after-end")
            self.emit("yield", s.code, droppable=False)
            self.yield_pos = self.pos
        elif k == "finish":
            self.emit("finish", s.code, droppable=False)
            raise Finished(s.code)
        elif k == "break":
            target = None
            if s.label:
                for lp in reversed(loops):
                    if lp.label == s.label:
                        target = lp
                        break
            elif loops:
                target = loops[-1]
            if target is None:
                raise Unknown("break target")
            raise BreakLoop(target)
        elif k == "loop":
            guard = 0
            while True:
                p0, n0 = self.pos, len(self.effects)
                try:
                    self.block(s.body, loops + [s])
                except BreakLoop as b:
                    if b.loop is s:
                        break
                    raise
                if self.pos == p0:
                    guard += 1
                    if guard > 3:
                        raise Unknown("loop iteration consumed nothing")
                else:
                    guard = 0
        elif k == "optional":
            first = s.body[0]
            if first.kind not in ("match", "appendm"):
                raise Unknown("optional does not begin with a match")
            c = self.peek()
            sem = gen.pat_sem(first.p, self.menv())
            if rx.deriv(sem, c) != rx.EMPTY:
                self.block(s.body, loops)
        elif k == "try":
            reasons = set(s.reasons) if s.reasons is not None else {"nomatch", "outofspace"}
            try:
                self.block(s.body, loops)
            except NoMatch:
                if "nomatch" not in reasons:
                    raise
                self.block(s.handler, loops)
            except OutOfSpace:
                if "outofspace" not in reasons:
                    raise
                if self.rewound:
                    self.rewound = False
                    self.flags.add("reread-handled")
                self.block(s.handler, loops)
        elif k == "foreach":
            self.foreach(s, loops)
        elif k == "if":
            if self.with_end and self.pos > self.ndata:
                self.flags.add("if-after-end")
            for cond, body in s.branches:
                t, v = self.ev(cond)
                if carith.truthy(t, v):
                    self.block(body, loops)
                    return
            if s.orelse is not None:
                self.block(s.orelse, loops)
        elif k == "case":
            self.case(s, loops)
        elif k == "call":
            self.call(s, loops)
        else:
            raise Unknown("statement kind " + k)

    # foreach: the do-actions run after every byte consumed inside the body (after the match's own per-character append)
    def foreach(self, s, loops):
        self.foreach_stack.append(s)
        try:
            self.block(s.body, loops)
        finally:
            self.foreach_stack.pop()

    def after_byte(self, c):
        if c == END:
            return
        for f in reversed(self.foreach_stack):
            for a in f.do:
                self.do_action_exact(a)

    def do_action_exact(self, a):
        """a foreach do-action: per-character timing"""
        n0 = len(self.effects)
        try:
            self.stmt(a, [])
        finally:
            for e in self.effects[n0:]:
                if not e.exact:
                    e.exact = True
                    e.droppable = False
                    e.pos = self.pos + (1 if self.in_byte else 0)
            self.journal = [j for j in self.journal if j[0] < n0]

    def menv(self):
        return getattr(self, "_menv", None)

    def call(self, s, loops):
        raise Unknown("macro calls are interpreted on the inlined twin")

    def case(self, s, loops):
        menv = self.menv()
        pats = []      # (clause index, sem, prio)
        else_clause = None
        for ci, cl in enumerate(s.clauses):
            for p in cl.preds:
                if p == "else":
                    else_clause = cl
                else:
                    pats.append([ci, gen.pat_sem(p, menv), cl.prio or 0])
        alive = [(ci, q, pr, pi) for pi, (ci, q, pr) in enumerate(pats)]
        consumed_any = False
        while True:
            done_now = [x for x in alive if rx.nullable(x[1])]
            cont = [x for x in alive if not rx.only_eps(x[1])]
            if self.greedy_eager and s.greedy and done_now and cont:
                best = max(x[2] for x in done_now)
                ci = min(x[0] for x in done_now if x[2] == best)
                # (only clauses made of plain actions: with a yield or a match in the body nmfu chains the actions lazily)
                plain = all(a.kind in ("assign", "assignstr", "delete", "hook", "appendc", "break", "finish") for a in s.clauses[ci].body)
                for a in (s.clauses[ci].body if plain else []):
                    if a.kind not in ("assign", "assignstr", "delete") or (a.kind == "assign" and has_var(a.e, a.var)):
                        break
                    self.stmt(a, loops)
                    self.flags.add("greedy-eager-applied")
            if done_now and not cont:
                chosen = self.pick(s, done_now)
                break
            self.maybe_complete = bool(done_now)
            c = self.peek()
            self.maybe_complete = False
            nxt = [(ci, rx.deriv(q, c), pr, pi) for ci, q, pr, pi in alive]
            nxt = [x for x in nxt if x[1] != rx.EMPTY]
            if nxt:
                if done_now and not s.greedy and any(x[3] != d[3] for x in nxt for d in done_now):
                    self.ambiguities.append(("case-finish-or-continue", self.pos, c))
                self.take(c, None)
                consumed_any = True
                alive = nxt
                continue
            if done_now:
                chosen = self.pick(s, done_now)
                break
            # no pattern can take c
            if else_clause is not None:
                self.block(else_clause.body, loops)
                return
            self.error(NoMatch())
        self.block(s.clauses[chosen].body, loops)

    def pick(self, s, done_now):
        clauses = {x[0] for x in done_now}
        if len(clauses) == 1:
            return next(iter(clauses))
        if not s.greedy:
            self.ambiguities.append(("case-two-clauses", self.pos, None))
            return min(clauses)
        best = max(x[2] for x in done_now)
        top = {x[0] for x in done_now if x[2] == best}
        if len(top) > 1:
            self.ambiguities.append(("greedy-tie", self.pos, None))
        return min(top)

    # -- top ---------------------------------------------------------------------------------------
    def run(self):
        try:
            self.block(self.prog.body, [])
            if self.pos < len(self.inp):
                self.open_tail = True      # the last statement ended by lookahead: nmfu reports FAIL there (DESIGN 2.5), both accepted
            self.emit("finish", None, droppable=False)
            self.result = ("finish", None)
        except Finished as f:
            self.result = ("finish", f.code)
        except (NoMatch, OutOfSpace):
            self.emit("fail", None, droppable=False)
            self.result = ("fail",)
        except Exhausted:
            self.result = ("exhausted",)
            if self.with_end:
                # end() on an unfinished parse reports FAIL (the parse is incomplete); effects still pending then (they sit behind
                # the END that was consumed, waiting for a byte that never comes) may or may not have run - slack rule 4
                try:
                    self.error(NoMatch())
                except NoMatch:
                    pass
                self.emit("fail", None, droppable=False)
                self.result = ("fail",)
        except BreakLoop:
            raise Unknown("break escaped")
        return self


# ---------------------------------------------------------------------------------------------------
# trace checker
# ---------------------------------------------------------------------------------------------------
def snap_view(snap_text_or_tuple):
    from . import cdrv
    if isinstance(snap_text_or_tuple, tuple):
        return snap_text_or_tuple
    d = cdrv.parse_snap(snap_text_or_tuple)
    out = []
    for k, v in d.items():
        if isinstance(v, tuple):
            out.append((k, v[0], v[1]))
        else:
            out.append((k, v))
    return tuple(out)


def match_trace(r, items, prog_c, nbytes, stats, pointers=False):
    """r: finished RI; items: normal form of the C run (one byte per call). -> None | (what, text)"""
    vis = [e for e in r.effects if e.kind in ("hook", "yield", "finish", "fail")]
    obs = [x for x in items if x[0] in ("H", "Y", "T")]
    for x in items:
        if x[0] in ("A", "P", "I"):
            return ("abort-or-spin", "the run ended abnormally: %s" % (x,))
    for k, x in enumerate(obs):
        if k >= len(vis):
            return ("extra-event", "the C performed %s, the procedural reading has no further effect (it has %d)" % (x[:3], len(vis)))
        e = vis[k]
        kind = {"H": "hook", "Y": "yield", "T": "term"}[x[0]]
        if kind == "hook":
            if e.kind != "hook" or prog_c.hooks[x[1]] != e.data:
                return ("wrong-event", "event %d: C called hook %s, reading prescribes %s" % (k, prog_c.hooks[x[1]], e))
            snap, base, off = x[4], x[5], None
        elif kind == "yield":
            if e.kind != "yield" or prog_c.code_name(x[1]) != "YIELD_" + e.data:
                return ("wrong-event", "event %d: C yielded %s, reading prescribes %s" % (k, prog_c.code_name(x[1]), e))
            snap, base, off = x[3], x[4], x[2]
        else:
            cn = prog_c.code_name(x[1])
            if e.kind == "finish" and e.data is None and r.open_tail and cn == "FAIL" and k == len(vis) - 1:
                stats["open_tail"] = stats.get("open_tail", 0) + 1
                continue
            want = "FAIL" if e.kind == "fail" else (("FINISH_" + e.data) if (e.kind == "finish" and e.data) else ("DONE" if e.kind == "finish" else None))
            if want is None or cn != want:
                return ("wrong-terminal" if e.kind in ("finish", "fail") else "wrong-event",
                        "event %d: C returned %s, reading prescribes %s" % (k, cn, e))
            snap, base, off = x[3], x[4], x[2]
        if snap_view(snap) != e.snap:
            return ("wrong-store-at-%s" % kind, "event %d %s: outputs visible %s, reading prescribes %s" % (k, e, snap_view(snap), e.snap))
        # timing: an effect with `pos` bytes consumed before it runs while byte pos-1 (eager) or byte pos (lazy) is processed
        if x[0] == "T" and x[6] == "S":
            okb = e.pos == 0
        elif e.exact:
            okb = base == e.pos - 1
        else:
            okb = base in (e.pos - 1, e.pos) or (e.pos == 0 and base == 0)
        if not okb:
            return ("wrong-position", "event %d %s fired while processing byte %d; reading allows %s" % (k, e, base, "byte %d" % (e.pos - 1) if e.exact else "byte %d or %d" % (e.pos - 1, e.pos)))
        if pointers and off is not None and off >= 0:
            if kind == "yield" and off != e.pos:
                nxt = vis[k + 1] if k + 1 < len(vis) else None
                tag = "[yield-on-final-transition]" if (off == e.pos - 1 and nxt is not None and nxt.kind == "finish" and nxt.data is None and nxt.pos == e.pos) else ""
                return ("wrong-pointer" + tag, "yield %s leaves the pointer at %d, %d bytes were consumed" % (e.data, off, e.pos))
            if kind == "term":
                if e.kind == "fail":
                    allowed = (e.pos - 1, e.pos) if r.fail_slack else (e.pos,)
                else:
                    allowed = (e.pos - 1, e.pos)
                if off not in allowed and not (e.pos == 0 and off == 0):
                    return ("wrong-pointer", "%s leaves the pointer at %d, reading allows %s (consumed %d)" % (cn, off, allowed, e.pos))
    if len(obs) < len(vis):
        rest = vis[len(obs):]
        # unobserved effects must be pending: they sit after the last byte that was fed
        for e in rest:
            if e.pos < nbytes or e.exact:
                return ("missing-event", "the reading prescribes %s (after %d of %d bytes) but the C never performed it" % (e, e.pos, nbytes))
        stats["pending_tail"] = stats.get("pending_tail", 0) + 1
    # final store: equal to the store after some effect of the last group (or before it)
    fin = [x for x in items if x[0] == "F"]
    if fin and not any(x[0] == "T" for x in obs) and r.maybe_complete:
        # non-strict assignments that follow an open-ended match run eagerly at every point where it could end
        stats["final_store_unchecked_open_statement"] = stats.get("final_store_unchecked_open_statement", 0) + 1
    elif fin and not any(x[0] == "T" for x in obs):
        got = snap_view(fin[-1][1])
        cands = [e.snap for e in r.effects if e.pos >= nbytes]
        before = [e.snap for e in r.effects if e.pos < nbytes]
        cands.append(before[-1] if before else Store(r.prog.outs).snapshot())
        if got not in cands:
            return ("wrong-final-store", "final outputs %s match no point of the last effect group %s" % (got, cands[-4:]))
    return None


def check(prog_ast, inp, items, prog_c, stats, with_end=False, max_runs=40, pointers=False):
    """search over 'pending effects dropped at an error' decisions (slack rule 4). -> None | (what, text) | ('unknown', why)"""
    v = _search(prog_ast, inp, items, prog_c, stats, with_end, max_runs, pointers, False)
    if v is None or v[0] == "unknown":
        return v
    # classification only: does the known mechanism K6 (a char-append that overflows on the transition that consumed the previous
    # byte hands that byte to the out-of-space handler a second time) explain the whole trace?
    for worlds, key, text in ALT_WORLDS:
        if _search(prog_ast, inp, items, prog_c, {}, with_end, max_runs, pointers, worlds) == "explained":
            stats["explained_by_" + "+".join(worlds)] = stats.get("explained_by_" + "+".join(worlds), 0) + 1
            return (key, "explained by %s; primary symptom: %s: %s" % (text, v[0], v[1]))
    return v


ALT_WORLDS = [
    (("reread",), "handler-rereads-byte[eager-append-overflow]", "K6 (the out-of-space handler re-reads the last consumed byte)"),
    (("stale_last",), "last-after-yield-is-next-byte", "K7 ($last behind a yield evaluates to the byte that follows)"),
    (("reread", "stale_last"), "last-after-yield-is-next-byte", "K7 together with K6"),
    (("greedy_eager",), "losing-greedy-clause-actions-applied", "K9 (leading non-strict actions of a greedy clause run as soon as its pattern completes, also when a longer clause wins)"),
]
NEED_FLAGS = {"reread": "reread-handled", "stale_last": "stale-last-applied", "greedy_eager": "greedy-eager-applied"}


def _search(prog_ast, inp, items, prog_c, stats, with_end, max_runs, pointers, reread):
    tried = 0
    queue = [()]
    seen = set()
    first_fail = None
    while queue and tried < max_runs:
        dec = queue.pop(0)
        if dec in seen:
            continue
        seen.add(dec)
        tried += 1
        try:
            r = RI(prog_ast, inp, with_end=with_end, decisions=dec, alt=reread or ()).run()
        except Unknown as u:
            return ("unknown", str(u))
        except RecursionError:
            return ("unknown", "recursion")
        v = match_trace(r, items, prog_c, len(inp), stats, pointers=pointers)
        if reread:
            if v is None:
                return "explained" if {NEED_FLAGS[w] for w in reread} <= r.flags else "not-explained"
        elif v is None:
            if dec:
                stats["needed_drop_rule"] = stats.get("needed_drop_rule", 0) + 1
                if any(d is not None and d != 0 for d in dec):
                    stats["needed_partial_drop"] = stats.get("needed_partial_drop", 0) + 1
            return None
        if first_fail is None:
            first_fail = (v, r)
        # branch: for each error event with droppable pending effects, try keeping fewer
        for i, (pos, k) in enumerate(r.error_events):
            if k == 0:
                continue
            cur = dec[i] if i < len(dec) and dec[i] is not None else k
            for keep in ([0] + list(range(k - 1, 0, -1))):
                if keep >= cur and i < len(dec):
                    continue
                nd = list(dec) + [None] * (i + 1 - len(dec))
                nd[i] = keep
                nd = tuple(nd[:i + 1])      # later decisions restart at default
                if nd not in seen:
                    queue.append(nd)
    if queue and tried >= max_runs:
        stats["search_cap_hit"] = stats.get("search_cap_hit", 0) + 1
        return ("unknown", "decision search cap")
    what, text = first_fail[0]
    fl = first_fail[1].flags
    if fl and what in ("wrong-terminal", "wrong-event", "missing-event"):
        what = "%s[%s]" % (what, "+".join(sorted(fl)))
    return (what, text)
