"""C side: per-program glue generation, batched sanitizer builds, script execution, log decoding."""
import os
import re
import shutil
import subprocess
from concurrent.futures import ThreadPoolExecutor

from . import nm
from .common import VERIF, mktmp

CDIR = os.path.join(VERIF, "vf", "c")
SAN_FLAGS = ["-O0", "-gline-tables-only", "-fsanitize=address,undefined", "-fno-sanitize-recover=all",
             "-fno-omit-frame-pointer", "-w"]
COV_FLAGS = ["-fsanitize-coverage=trace-pc-guard"]
RUN_ENV = {
    "ASAN_OPTIONS": "detect_leaks=1:leak_check_at_exit=0:halt_on_error=1:abort_on_error=0:exitcode=77:allocator_may_return_null=1:detect_stack_use_after_return=0",
    "UBSAN_OPTIONS": "halt_on_error=1:print_stacktrace=0:exitcode=78",
    "LSAN_OPTIONS": "exitcode=0:print_suppressions=0",
}


class Prog:
    """One accepted compilation placed in a batch."""

    def __init__(self, res, tag=None, meta=None):
        m = nm.nmfu()
        PF = m.ProgramFlag
        self.name = res.name
        self.header = res.header
        self.source = res.source
        self.tag = tag
        self.meta = meta or {}
        fl = res.flags
        self.indirect = bool(fl[PF.INDIRECT_START_PTR])
        self.eof = bool(fl[PF.EOF_SUPPORT])
        self.yields = bool(fl[PF.YIELD_SUPPORT])
        self.dynamic = bool(fl[PF.DYNAMIC_MEMORY])
        self.dyn_str = bool(fl[PF.ALLOCATE_STR_SPACE_DYNAMIC])
        self.on_demand = bool(fl[PF.ALLOCATE_STR_SPACE_DYNAMIC_ON_DEMAND])
        self.hook_global = bool(fl[PF.HOOK_GLOBAL])
        self.hook_state = bool(fl[PF.HOOK_PER_STATE])
        self.u8 = bool(fl[PF.STRINGS_AS_U8])
        self.zero_len = bool(fl[PF.ZERO_LEN_INPUT_SUPPORT])
        self.strict_done = bool(fl[PF.STRICT_DONE_TOKEN_GENERATION])
        cc = res.cctx
        self.hooks = list(cc.hooks)
        self.fcodes = list(cc.finish_codes)
        self.ycodes = list(cc.yield_codes)
        self.nstates = len(cc.dfa.states)
        self.outs = []
        T = m.OutputStorageType
        for o in cc.state_object_spec:
            d = {"name": o.name}
            if o.type == T.INT:
                d.update(kind="int", signed=o.int_signed, width=o.int_width)
            elif o.type == T.BOOL:
                d.update(kind="bool")
            elif o.type == T.ENUM:
                d.update(kind="enum", values=list(o.enum_values))
            elif o.type == T.STR:
                d.update(kind="str", size=o.str_size, term=bool(o.str_null), has_default=o.default_value is not None)
            else:
                d.update(kind="raw", raw=o.raw_underlying)
            self.outs.append(d)
        self.codes = ["OK", "FAIL", "DONE"] + ["FINISH_" + c for c in self.fcodes] + ["YIELD_" + c for c in self.ycodes]

    FIELDS = ("name", "header", "source", "indirect", "eof", "yields", "dynamic", "dyn_str", "on_demand", "hook_global", "hook_state",
              "u8", "zero_len", "strict_done", "hooks", "fcodes", "ycodes", "nstates", "outs", "codes")

    def to_dict(self):
        return {k: getattr(self, k) for k in self.FIELDS}

    @classmethod
    def from_dict(cls, d, tag=None, meta=None):
        p = cls.__new__(cls)
        for k in cls.FIELDS:
            setattr(p, k, d[k])
        p.tag = tag
        p.meta = meta or {}
        return p

    def code_name(self, v):
        return self.codes[v] if 0 <= v < len(self.codes) else "?%d" % v

    def is_yield(self, v):
        return v >= 3 + len(self.fcodes)

    def is_terminal(self, v):
        return v != 0 and not self.is_yield(v)

    # ------------------------------------------------------------------------------------------------
    def glue(self):
        n = self.name
        U = n.upper()
        L = []
        A = L.append
        A('#include "%s.h"' % n)
        A('#include "drv.h"')
        A("#include <stdlib.h>\n#include <string.h>")
        A("typedef %s_state_t %s_ST;" % (n, n))
        A("static const drv_prog_t %s_desc_;" % n)
        # snapshot
        A("static void %s_snap(void *v) { %s_ST *s = v; (void)s;" % (n, n))
        for o in self.outs:
            nmq = o["name"]
            if o["kind"] == "int":
                if o["signed"] is False:
                    A('  drv_snap_uint("%s", (unsigned long long)s->c.%s);' % (nmq, nmq))
                else:
                    A('  drv_snap_int("%s", (long long)s->c.%s);' % (nmq, nmq))
            elif o["kind"] in ("bool", "enum"):
                A('  drv_snap_int("%s", (long long)s->c.%s);' % (nmq, nmq))
            elif o["kind"] == "str":
                isnull = "(s->c.%s == NULL)" % nmq if self.dyn_str else "0"
                A('  drv_snap_buf("%s", s->c.%s, s->%s_counter, %d, %d, %s);' % (nmq, nmq, nmq, o["size"], int(o["term"]), isnull))
            else:
                A('  drv_snap_buf("%s", &s->c.%s, s->%s_counter, sizeof(s->c.%s), 0, 0);' % (nmq, nmq, nmq, nmq))
        A("}")
        # invariants (C03)
        A("static void %s_inv(void *v) { %s_ST *s = v; (void)s;" % (n, n))
        for o in self.outs:
            nmq = o["name"]
            if o["kind"] == "str":
                eff = o["size"] - (1 if o["term"] else 0)
                A("  if ((long)s->%s_counter > %d) drv_invariant(\"counter-exceeds-capacity\", \"%s\", s->%s_counter, %d);" % (nmq, eff, nmq, nmq, eff))
                if self.dyn_str:
                    A("  else if (s->c.%s == NULL) { if (s->%s_counter) drv_invariant(\"null-buffer-nonzero-counter\", \"%s\", s->%s_counter, 0); }" % (nmq, nmq, nmq, nmq))
                if o["term"]:
                    A("  else if (((const unsigned char *)s->c.%s)[s->%s_counter] != 0) drv_invariant(\"not-nul-terminated\", \"%s\", s->%s_counter, ((const unsigned char *)s->c.%s)[s->%s_counter]);" % (nmq, nmq, nmq, nmq, nmq, nmq))
            elif o["kind"] == "raw":
                A("  if ((unsigned long)s->%s_counter > sizeof(s->c.%s)) drv_invariant(\"counter-exceeds-capacity\", \"%s\", s->%s_counter, sizeof(s->c.%s));" % (nmq, nmq, nmq, nmq, nmq))
        A("}")
        # hooks
        for i, h in enumerate(self.hooks):
            if self.hook_global:
                A("void %s_%s_hook(%s_state_t *state, uint8_t inval) { drv_hook(%d, inval, state, &%s_desc_); }" % (n, h, n, i, n))
            else:
                A("static void %s_%s_hookfn(struct %s_state *state, uint8_t inval) { drv_hook(%d, inval, state, &%s_desc_); }" % (n, h, n, i, n))
        A("static void %s_prep(void *v) { %s_ST *s = v; (void)s;" % (n, n))
        for o in self.outs:
            if o["kind"] in ("int", "bool"):
                A("  s->c.%s = 0;" % o["name"])
            elif o["kind"] == "enum":
                A("  s->c.%s = (%s_out_%s_t)0;" % (o["name"], n, o["name"]))
            elif o["kind"] == "raw":
                A("  memset(&s->c.%s, 0, sizeof s->c.%s);" % (o["name"], o["name"]))
        A("}")
        A("static void %s_sethooks(void *v) { %s_ST *s = v; (void)s;" % (n, n))
        if self.hook_state and not self.hook_global:
            for h in self.hooks:
                A("  s->%s_hook = %s_%s_hookfn;" % (h, n, h))
        A("}")
        # deep copy / free of clones
        A("static void %s_deepcopy(void *d_, const void *s_) { %s_ST *d = d_; const %s_ST *s = s_; memcpy(d, s, sizeof *d);" % (n, n, n))
        if self.dyn_str:
            for o in self.outs:
                if o["kind"] == "str":
                    A("  if (s->c.%s) { d->c.%s = malloc(%d); memcpy(d->c.%s, s->c.%s, %d); }" % (o["name"], o["name"], o["size"], o["name"], o["name"], o["size"]))
        A("}")
        A("static void %s_deepfree(void *v) { %s_ST *s = v; (void)s;" % (n, n))
        if self.dyn_str:
            for o in self.outs:
                if o["kind"] == "str":
                    A("  free(s->c.%s); s->c.%s = NULL;" % (o["name"], o["name"]))
        A("}")
        # setters
        A("static int %s_set(void *v, const char *name, long long x) { %s_ST *s = v; (void)s; (void)x;" % (n, n))
        for o in self.outs:
            nmq = o["name"]
            if o["kind"] in ("int", "bool"):
                A('  if (!strcmp(name, "%s")) { s->c.%s = x; return 0; }' % (nmq, nmq))
            elif o["kind"] == "enum":
                A('  if (!strcmp(name, "%s")) { s->c.%s = (%s_out_%s_t)x; return 0; }' % (nmq, nmq, n, nmq))
            else:
                A('  if (!strcmp(name, "%s.len")) { s->%s_counter = x; return 0; }' % (nmq, nmq))
        A("  return 1; }")
        A("static int %s_setstr(void *v, const char *name, const uint8_t *b, int n) { %s_ST *s = v; (void)s; (void)b; (void)n;" % (n, n))
        for o in self.outs:
            nmq = o["name"]
            if o["kind"] == "str":
                A('  if (!strcmp(name, "%s")) {' % nmq)
                if self.dyn_str:
                    A("    if (!s->c.%s) s->c.%s = malloc(%d);" % (nmq, nmq, o["size"]))
                A("    memset(s->c.%s, 0, %d); memcpy(s->c.%s, b, n); s->%s_counter = n;" % (nmq, o["size"], nmq, nmq))   # (beyond the length: zeros, known to the model)
                if o["term"]:
                    A("    if (n < %d) s->c.%s[n] = 0;" % (o["size"], nmq))
                A("    return 0; }")
            elif o["kind"] == "raw":
                A('  if (!strcmp(name, "%s")) { memset(&s->c.%s, 0, sizeof s->c.%s); memcpy(&s->c.%s, b, n); s->%s_counter = n; return 0; }' % (nmq, nmq, nmq, nmq, nmq))
        A("  return 1; }")
        A("static long %s_getstate(void *v) { return ((%s_ST *)v)->state; }" % (n, n))
        A("static void %s_setstate(void *v, long k) { ((%s_ST *)v)->state = k; }" % (n, n))
        A("static int %s_startw(void *v) { return %s_start(v); }" % (n, n))
        if self.indirect:
            A("static int %s_feedw(const uint8_t **pp, const uint8_t *end, void *v) { return %s_feed(pp, end, v); }" % (n, n))
        else:
            A("static int %s_feedw(const uint8_t **pp, const uint8_t *end, void *v) { return %s_feed(*pp, end, v); }" % (n, n))
        if self.eof:
            A("static int %s_endw(void *v) { return %s_end(v); }" % (n, n))
        if self.dynamic:
            A("static void %s_freew(void *v) { %s_free(v); }" % (n, n))
        fy = (3 + len(self.fcodes)) if self.ycodes else -1
        A("static const drv_prog_t %s_desc_ = { \"%s\", sizeof(%s_ST), %d, %d, %d, %d, %s_OK, %s_FAIL, %s_DONE, %d, %d," %
          (n, n, n, int(self.indirect), int(self.eof), int(self.dynamic), len(self.hooks), U, U, U, fy, len(self.codes)))
        A("  %s_startw, %s_feedw, %s, %s, %s_snap, %s_sethooks, %s_deepcopy, %s_deepfree, %s_set, %s_setstr, %s_getstate, %s_setstate, %s_inv, %s_prep };" %
          (n, n, ("%s_endw" % n) if self.eof else "NULL", ("%s_freew" % n) if self.dynamic else "NULL", n, n, n, n, n, n, n, n, n, n))
        A("const drv_prog_t *const %s_desc = &%s_desc_;" % (n, n))
        # enumerator order check: the documented names exist and the header's values are the ones the decoder assumes
        for i, c in enumerate(self.codes):
            A("_Static_assert(%s_%s == %d, \"result enumerator order\");" % (U, c, i))
        return "\n".join(L) + "\n"


class BuildError(Exception):
    pass


def _run(cmd, cwd, timeout=600):
    return subprocess.run(cmd, cwd=cwd, capture_output=True, text=True, timeout=timeout)


class Batch:
    """A set of programs linked into one sanitized binary."""

    def __init__(self, progs, workdir=None, cov=True, extra_flags=(), cc="clang"):
        self.progs = list(progs)
        self.dir = workdir or mktmp()
        self.cov = cov
        self.extra = list(extra_flags)
        self.cc = cc
        self.failed = []       # (prog, stderr) whose C did not compile
        self.binary = None
        self.index = {}
        self.guards = None

    def build(self, jobs=4):
        d = self.dir
        for f in ("drv.h", "driver.c"):
            shutil.copy(os.path.join(CDIR, f), os.path.join(d, f))
        live = list(self.progs)
        for p in live:
            with open(os.path.join(d, p.name + ".h"), "w") as f:
                f.write(p.header)
            with open(os.path.join(d, p.name + ".c"), "w") as f:
                f.write(p.source)
            with open(os.path.join(d, p.name + "_glue.c"), "w") as f:
                f.write(p.glue())
        for attempt in range(len(self.progs) + 2):
            if not live:
                raise BuildError("no program in the batch compiles")
            nchunk = max(1, min(jobs, (len(live) + 5) // 6))
            chunks = [live[i::nchunk] for i in range(nchunk)]
            units = []
            for ci, ch in enumerate(chunks):
                fn = "parsers%d.c" % ci
                with open(os.path.join(d, fn), "w") as f:
                    for p in ch:
                        f.write('#include "%s.c"\n' % p.name)
                units.append((fn, SAN_FLAGS + (COV_FLAGS if self.cov else []) + self.extra))
                fn = "glue%d.c" % ci
                with open(os.path.join(d, fn), "w") as f:
                    for p in ch:
                        f.write('#include "%s_glue.c"\n' % p.name)
                units.append((fn, SAN_FLAGS + self.extra))
            with open(os.path.join(d, "table.c"), "w") as f:
                f.write('#include "drv.h"\n')
                for p in live:
                    f.write("extern const drv_prog_t *const %s_desc;\n" % p.name)
                f.write("const drv_prog_t *drv_progs[%d];\nconst int drv_nprogs = %d;\n" % (len(live), len(live)))
                f.write("__attribute__((constructor)) static void init_table(void) {\n")
                for i, p in enumerate(live):
                    f.write("  drv_progs[%d] = %s_desc;\n" % (i, p.name))
                f.write("}\n")
            units.append(("table.c", SAN_FLAGS))
            units.append(("driver.c", SAN_FLAGS))

            def cc(u):
                fn, flags = u
                return fn, _run([self.cc, "-std=gnu11", "-c", fn, "-o", fn[:-2] + ".o"] + flags, d)
            with ThreadPoolExecutor(max_workers=jobs) as ex:
                results = list(ex.map(cc, units))
            bad = set()
            errs = {}
            for fn, r in results:
                if r.returncode != 0:
                    names = set(re.findall(r"(?:\./)?(p\d+)(?:_glue)?\.[ch]:\d+:\d+: (?:fatal )?error", r.stderr))
                    if not names:
                        raise BuildError("driver build failed: %s\n%s" % (fn, r.stderr[:3000]))
                    for nme in names:
                        bad.add(nme)
                        errs[nme] = r.stderr
            if bad:
                for p in list(live):
                    if p.name in bad:
                        live.remove(p)
                        self.failed.append((p, _errors_for(errs[p.name], p.name)))
                continue
            objs = [fn[:-2] + ".o" for fn, _ in units]
            r = _run([self.cc] + objs + ["-o", "drv", "-fsanitize=address,undefined"], d)
            if r.returncode != 0:
                raise BuildError("link failed:\n" + r.stderr[:3000])
            self.binary = os.path.join(d, "drv")
            self.live = live
            self.index = {p.name: i for i, p in enumerate(live)}
            return self
        raise BuildError("could not build batch")

    # ------------------------------------------------------------------------------------------------
    def run(self, runs, timeout=600, zero_heap=False):
        """runs: list of (run_id:str, prog, [script lines]). Returns {run_id: Run}. Sanitizer aborts are attributed to
        the run under way and the binary is restarted on the remaining runs."""
        out = {}
        todo = [r for r in runs if r[1].name in self.index]
        if not todo:
            return out
        sp = os.path.join(self.dir, "script.txt")
        with open(sp, "w") as f:
            for rid, p, lines in todo:
                f.write("RUN %s %d\n" % (rid, self.index[p.name]))
                f.write("\n".join(lines))
                f.write("\nENDRUN\n")
        byid = {rid: (i, p, lines) for i, (rid, p, lines) in enumerate(todo)}
        env = dict(os.environ)
        env.update(RUN_ENV)
        if zero_heap:   # deterministic content of fresh heap blocks (differential checks); C03 keeps ASan's 0xbe fill
            env["ASAN_OPTIONS"] += ":max_malloc_fill_size=65536:malloc_fill_byte=0"
        skip = 0
        rounds = 0
        while skip < len(todo):
            rounds += 1
            lp = os.path.join(self.dir, "log.txt")
            try:
                r = subprocess.run([self.binary, sp, lp, str(skip)], cwd=self.dir, capture_output=True, text=True, timeout=timeout,
                                   env=env, errors="replace")
                rc, err = r.returncode, r.stderr
            except subprocess.TimeoutExpired as e:
                rc, err = -999, "WATCHDOG " + ((e.stderr or b"").decode("latin-1") if isinstance(e.stderr, bytes) else (e.stderr or ""))
            parsed, order = parse_log(lp)
            last = None
            for rid in order:
                run = parsed[rid]
                run.prog = byid[rid][1]
                run.script = byid[rid][2]
                out[rid] = run
                last = rid
            if rc == 0:
                self.guards = self.guards_from(lp)
                break
            if last is None:
                raise BuildError("driver died before the first run: rc=%s\n%s" % (rc, err[:2000]))
            run = out[last]
            if not run.complete:
                run.abort = classify_report(err, rc)
                run.stderr = err[-6000:]
            skip = byid[last][0] + 1
            if rounds > len(todo) + 5:
                break
        return out

    def guards_from(self, lp):
        try:
            with open(lp) as f:
                f.seek(max(0, os.path.getsize(lp) - 100))
                tail = f.read()
            m = re.search(r"G (\d+) (\d+)", tail)
            if m:
                return int(m.group(1)), int(m.group(2))
        except OSError:
            pass
        return None

    def cleanup(self):
        shutil.rmtree(self.dir, ignore_errors=True)


def _errors_for(stderr, name):
    keep = [ln for ln in stderr.splitlines() if re.search(r"error", ln)]
    return "\n".join(keep[:6])


def classify_report(err, rc):
    """(kind, summary) of a sanitizer report block"""
    if err.startswith("WATCHDOG"):
        return ("watchdog", "wall-clock watchdog")
    m = re.search(r"ERROR: AddressSanitizer: ([\w-]+)", err)
    if m:
        what = m.group(1)
        acc = re.search(r"(READ|WRITE) of size (\d+)", err)
        fn = re.search(r"#0 0x[0-9a-f]+ in (\w+)", err)
        return ("asan:" + what, "%s %s in %s" % (what, acc.group(0) if acc else "", fn.group(1) if fn else "?"))
    m = re.search(r"runtime error: (.*)", err)
    if m:
        msg = m.group(1)
        key = re.sub(r"0x[0-9a-f]+|\d+", "N", msg)[:60]
        return ("ubsan:" + key, msg[:200])
    if "LeakSanitizer" in err:
        return ("lsan:leak", "leak")
    return ("crash:rc=%s" % rc, err[-300:])


class Run:
    __slots__ = ("rid", "k", "events", "complete", "abort", "stderr", "prog", "script", "leak", "calls")

    def __init__(self, rid, k):
        self.rid = rid
        self.k = k
        self.events = []     # tuples, see parse_log
        self.complete = False
        self.abort = None
        self.stderr = None
        self.prog = None
        self.script = None
        self.leak = None
        self.calls = 0

    def rets(self):
        return [e for e in self.events if e[0] == "R"]

    def hooks(self):
        return [e for e in self.events if e[0] == "H"]

    def invariants(self):
        return [e for e in self.events if e[0] == "I"]

    def spins(self):
        return [e for e in self.events if e[0] == "P"]


def parse_log(path):
    """events:
       ('R', kind, callno, code, off, state, edges, snap, base, n)   ('H', idx, inval, off, snap, base, n)
       ('I', which, name, a, b)   ('P', callno, edges, repeat, state)   ('L', n)   ('N', snap)"""
    runs = {}
    order = []
    cur = None
    try:
        f = open(path, errors="replace")
    except OSError:
        return runs, order
    with f:
        for line in f:
            if not line.endswith("\n"):
                break      # torn last line of an aborted process
            t = line[0]
            if t == "R":
                _, kind, callno, code, off, state, edges, base, n, snap = line.rstrip("\n").split(" ", 9)
                cur.events.append(("R", kind, int(callno), int(code), int(off), int(state), int(edges), snap, int(base), int(n)))
            elif t == "H":
                _, idx, inval, off, base, n, snap = line.rstrip("\n").split(" ", 6)
                cur.events.append(("H", int(idx), int(inval), int(off), snap, int(base), int(n)))
            elif t == "B":
                _, rid, k = line.split()
                cur = Run(rid, int(k))
                runs[rid] = cur
                order.append(rid)
            elif t == "X":
                cur.complete = True
                parts = line.split()
                cur.calls = int(parts[1]) if len(parts) > 1 else 0
            elif t == "I":
                _, which, name, a, b = line.split()
                cur.events.append(("I", which, name, int(a), int(b)))
            elif t == "P":
                _, callno, edges, rep, state = line.split()
                cur.events.append(("P", int(callno), int(edges), int(rep), int(state)))
            elif t == "L":
                cur.leak = int(line.split()[1])
                cur.events.append(("L", cur.leak))
            elif t == "N":
                cur.events.append(("N", line[2:].rstrip("\n")))
            elif t == "W":
                h = line[2:].rstrip("\n")
                cur.events.append(("W", [(int(h[i], 16), int(h[i + 1], 16), int(h[i + 2], 16)) for i in range(0, len(h) - 2, 3)]))
            elif t == "w":
                cur.events.append(("w", int(line.split()[1])))
            elif t == "v":
                _, b, code, adv, state, snap = line.rstrip("\n").split(" ", 5)
                cur.events.append(("v", int(b), int(code), int(adv), int(state), snap))
    return runs, order


def parse_snap(s):
    """'i0=5;s0=2:6162:0:0;' -> {'i0': 5, 's0': (2, b'ab', 0, 0)}"""
    d = {}
    for item in s.split(";"):
        if not item:
            continue
        k, v = item.split("=", 1)
        if ":" in v:
            ln, hx, term, isnull = v.split(":")
            d[k] = (int(ln), bytes.fromhex(hx), int(term), int(isnull))
        else:
            d[k] = int(v)
    return d


def hexs(bs):
    return bytes(bs).hex() if bs else "-"
