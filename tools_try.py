"""usage: tools_try.py <file.nmfu> <args...> -- <input1> <input2> ...   (inputs as python-escaped strings): per-byte trace of the emitted parser"""
import sys
sys.path.insert(0, "/verif")
from vf import cdrv, diff, nm, trace
from vf.common import ensure_deps
ensure_deps()
a = sys.argv[1:]
i = a.index("--")
src = open(a[0]).read()
args = a[1:i]
r = nm.compile_source(src, args, name="p0")
print("compile:", r.status, r.exc_type, r.exc_msg)
if r.ok:
    p = cdrv.Prog(r, meta={"src": src, "args": args})
    b = cdrv.Batch([p]).build()
    ins = [x.encode("latin-1").decode("unicode_escape").encode("latin-1") for x in a[i + 1:]]
    res = b.run([("r%d" % k, p, diff.default_script(p, bs)) for k, bs in enumerate(ins)], zero_heap=True)
    for k, bs in enumerate(ins):
        run = res["r%d" % k]
        print(repr(bs), trace.describe(trace.normal_form(run, p), p, 40), run.abort or "")
    b.cleanup()
