#!/bin/sh
# usage: muttest.sh <seeded-id> <seeds> -- <check IDs...>: apply seeded/<id>/patch.diff to a scratch worktree of /repo HEAD and run checks on it
sid=$1; shift
rm -rf /tmp/mut-$sid; git -C /repo worktree prune
git -C /repo worktree add -q /tmp/mut-$sid HEAD || exit 3
if ! git -C /tmp/mut-$sid apply /verif/seeded/$sid/patch.diff; then echo "PATCH DOES NOT APPLY"; git -C /repo worktree remove --force /tmp/mut-$sid; exit 3; fi
/verif/seedtest.sh /tmp/mut-$sid "$@"
git -C /repo worktree remove --force /tmp/mut-$sid
