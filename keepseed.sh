#!/bin/sh
# usage: keepseed.sh <worktree> <seeded-id>: confirm a sub-agent's change (tests pass, demo fails with / passes without), store it under seeded/<id>/
wt=$1; sid=$2
mkdir -p /verif/seeded/$sid
git -C $wt diff -- nmfu.py > /verif/seeded/$sid/patch.diff
cp -r $wt/demo/. /verif/seeded/$sid/ 2>/dev/null
rm -rf /verif/seeded/$sid/__pycache__ /verif/seeded/$sid/build /verif/seeded/$sid/out
echo "patch lines: $(wc -l < /verif/seeded/$sid/patch.diff)"
(cd $wt && /venv/bin/python -m pytest -q -p no:cacheprovider --timeout=900 2>&1 | tail -1)
orig=/tmp/orig-$sid; rm -rf $orig; mkdir -p $orig; git -C $wt show HEAD:nmfu.py > $orig/nmfu.py
(cd /verif/seeded/$sid && /venv/bin/python demo.py $wt >/tmp/demo-$sid-with.log 2>&1; echo "demo with change rc=$?"; /venv/bin/python demo.py $orig >/tmp/demo-$sid-without.log 2>&1; echo "demo without change rc=$?")
rm -rf $orig /verif/seeded/$sid/__pycache__
