#!/bin/sh
# usage: mutall.sh <seed> [ids...]: every seeded change (default: all) against the check of its own property, quick tier
seed=$1; shift
ids="$@"; [ -z "$ids" ] && ids=$(ls /verif/seeded)
for sid in $ids; do
  prop=$(python3 -c "import json;print(json.load(open('/verif/seeded/$sid/meta.json'))['property'])")
  /verif/muttest.sh $sid $seed -- $prop 2>&1 | grep -v WARNING | sed "s/^/$sid: /"
done
