#!/venv/bin/python
"""prints a markdown table of what the last run of every check observed (from evidence/*.json) - pasted into DESIGN.md section 13"""
import glob
import json
import os

HERE = os.path.dirname(os.path.abspath(__file__))
KEYS = ["programs_accepted", "programs", "binaries", "runs_checked", "bytes_fed", "hook_events", "yield_events", "terminal_events", "pairs_compared", "steps_compared",
        "calls_monitored", "calls_metered", "byte_steps_swept", "prefix_observations", "compiler_invocations", "expressions_checked", "contract_evaluations",
        "clause_sets", "statement_pairs", "compilations_in_workers", "status_accepted", "status_rejected", "cli_runs", "cov_edges_hit"]
print("| id | tier/seed | wall s | evaluations | distinct non-trivial | what was observed | known findings seen |")
print("|---|---|---|---|---|---|---|")
for f in sorted(glob.glob(os.path.join(HERE, "evidence", "C*.json"))):
    d = json.load(open(f))
    c = d["coverage"]
    obs = ", ".join("%s=%s" % (k, c[k]) for k in KEYS if k in c)
    kf = ", ".join("%s x%d" % (k.split(":", 1)[1], v) for k, v in (c.get("known_findings_seen") or {}).items()) or "-"
    print("| %s | %s/%s | %s | %s | %s | %s | %s |" % (d["property_id"], d["tier"], d["seed"], int(d["wall_s"]), c.get("evaluations"), c.get("distinct_nontrivial"), obs, kf))
