#!/venv/bin/python
"""Regenerates MANIFEST.json from the table below (keeps it valid at all times)."""
import json, os
HERE = os.path.dirname(os.path.abspath(__file__))
props = {}
for l in open(os.path.join(HERE, "properties.jsonl")):
    p = json.loads(l); props[p["id"]] = p

CHECKS = {
 "C01": ("exploration", "emitted C (ASan+UBSan, indirect pointer) fed one byte per call on every string up to a length bound over the program's byte classes plus guided walks; every hook (with visible outputs), yield, terminal result and final store checked against a reference interpreter of the procedural reading under explicit timing slack (one-position shift, pending effects lost at errors)", "3 C01", "reference-model monitor (procedural interpreter vf/ri.py) over recorded event logs of sanitized emitted C",
         "vf/ri.py is the reading of docs/user-ref/parser.md; profile excludes constructs whose meaning is open (actions right after open-ended statements, optional with re-entrant first pattern)"),
 "C02": ("exploration", "sanitized emitted C under an exact-size-chunk / state-relocating driver; all 2^(n-1) chunkings of short inputs and cut-point/random chunkings of long ones compared with the one-byte schedule of the same binary (self-consistency monitor over recorded event logs)", "3 C02", "differential runtime monitoring of emitted C (ASan+UBSan), one-byte schedule as oracle",
         "trusts clang/ASan/UBSan and the driver; offsets observable only in indirect-pointer builds (direct builds: chunk containment)"),
 "C03": ("exploration", "emitted C built with ASan+UBSan+LSan in every string-storage mode, driven with poisoned state, exact-size chunks, relocated state, calls after terminal results, double free() and start/free cycles; string counter/terminator invariants checked after start() and every call; computed indices leaving the buffer on either side must read 0 (non-zero neighbours); constants with 1-3 byte characters accepted iff they fit, stored exactly, leak-checked; icontract post-condition on the real _generate_set_string", "3 C03", "compiler sanitizers + in-driver invariants + icontract contract on the code generator",
         "ASan is object-granular (intra-struct overflow covered by invariants/contract/dynamic modes); user-written arithmetic UB is skipped"),
 "C04": ("exploration", "SanitizerCoverage trace-pc-guard step meter in the driver: a call exceeding its edge bound is checked for an exact configuration repeat (guard, state bytes, input position) and escaped with longjmp; yield re-invocation repeats are detected too; workload = round-trip program shapes (incl. handlers whose way back depends on the byte or on variables), long overflowing inputs, forced (state, byte, strings full/empty) grids and candidates from a non-consuming-move cycle finder over the compiled machine, end() from every state", "3 C04", "online runtime monitor (step meter + configuration-repeat detector) in instrumented emitted C",
         "spin verdict = exact configuration repeat (sound) or 50x the generous per-call edge bound; wall-clock only as watchdog"),
 "C05": ("exploration", "one sanitized binary holding the -O0 build and builds at -O1..-O3 / each optimisation flag and threshold flipped; per-byte event traces compared under the documented one-position slack; icontract post-condition on the real range-check generator", "3 C05", "differential runtime monitoring of emitted C, -O0 build as oracle, plus icontract contract on _generate_condition_for_transition",
         "final store of runs ending without a terminal result is not compared (pending lazy assignments); observed at later events of longer inputs"),
 "C08": ("exploration", "single-case programs (2-5 clauses, shared prefixes, literals / case-insensitive / regexes, else alone or combined, priorities; greedy ones in a yield loop) whose clauses carry distinct markers, run on all short strings and guided walks; marker, offset and stores checked against the reference interpreter's parallel-automata case rule", "3 C08", "reference-model monitor (parallel derivative automata) over recorded executions of sanitized emitted C",
         "greedy rule as the property states it: keep consuming while any pattern can continue"),
 "C09": ("exploration", "deliberately overlapping clause sets and statement pairs `A; B`: exact ambiguity by product search over independently built derivative automata compared with the real compiler's accept/reject verdict; witnesses of accepted-ambiguous programs are executed on the emitted C; accepted clause sets are run with the interpreter's ambiguity recorder on", "3 C09", "verdict monitor on the real compiler against an exact automata-theoretic oracle, plus runtime ambiguity recorder",
         "only clause sets and statement pairs get the exact test; over-rejection is counted, not flagged"),
 "C10": ("exploration", "pointer positions of FAIL / DONE / yields against the reference interpreter's consumed-byte count; an online protocol monitor over hostile call histories (OK only at chunk end, FAIL absorbing for feed / zero-length feed / end); normal vs strict-done build differ only by DONE one call later", "3 C10", "online protocol monitor over call histories + reference-model monitor for consumed-byte counts",
         "end() is the last event of a history; DONE may leave the pointer on the last byte read or past it when postponed"),
 "C11": ("exploration", "gcc -std=c99/-std=c11, clang, g++ (header) with -Wall -Werror -Wno-unused-label, an API-use translation unit and nm run on the text emitted for generated and corpus programs under a covering array of code-generation options", "3 C11", "execution of the real compilers on real output (the compilers are the monitor)",
         "gcc 12 / clang 14 as installed define 'valid C'"),
 "C12": ("exploration", "one sanitized binary holding the default-option build and builds under rows of representation options; strict equality of per-byte traces (codes, output contents and lengths, hook sequence)", "3 C12", "differential runtime monitoring of emitted C, default-option build as oracle",
         "heap blocks are zero-filled in these runs so that reads beyond the written length are deterministic"),
 "C06": ("translation_validation", "for every machine state x every byte 0..255 and END x data contexts (strings empty / full / random, scalars set) one forced step of the emitted C on a deep copy, compared (return code, resulting state, outputs, hook calls, pointer advance) with an abstract machine executing the DFState/DFTransition/Action objects of the same compilation", "3 C06", "per-program translation validation by forced single-step execution against an abstract machine",
         "vf/am.py is the reading of what the compiled machine means; DONE postponed by one call after a break is tolerated (judged under C10)"),
 "C07": ("exploration", "emitted C of `/R/; end;` for enumerated small and random larger regexes (text and binary form): acceptance observed at every prefix through end() on a state copy, feed codes and FAIL pointer, and forced one-byte sweeps over all 256 byte values from several automaton states, compared with a Brzozowski-derivative engine; closed regexes also alone in a parser (`/R/;`), end() at every prefix", "3 C07", "reference-model monitor (regex derivatives) over recorded executions of sanitized emitted C",
         "vf/rx.py is the language definition (documented dialect)"),
 "C13": ("exploration", "generated programs and their macro-ized twins (slices extracted into nested macros with parameters of every kind; re-entrant and name-capturing calls with hand-expanded twins) compiled by the real compiler and linked into one sanitized binary: verdicts equal, per-byte traces identical; mutated calls (extra/missing/wrong-kind/undefined arguments) must be diagnosed", "3 C13", "differential runtime monitoring of emitted C, inlined twin as oracle, plus exception monitor on argument errors",
         "macro-ization is the harness's own AST transformation"),
 "C14": ("exploration", "random well-typed expression trees (all operators and atoms, minimal parentheses) placed in assignment / bool assignment / character append / if contexts; variable values written into the state struct, one byte fed, stored results read back and compared with a big-integer evaluator with explicit C typing (UB classified and skipped)", "3 C14", "reference-model monitor (C arithmetic evaluator) over executions of sanitized emitted C",
         "LP64 gcc/clang typing; conversion to signed targets wraps"),
 "C15": ("exploration", "8-byte literals tiling all 256 byte values in every match spelling, swept with all 256 next bytes at every position and run on single-byte mutations; assigned / default strings, character constants and integer literals read back from the state struct; set-string contract on the real code generator", "3 C15", "reference-model monitor (literal decoder + derivatives) over executions of sanitized emitted C, icontract contract",
         "vf/lit.py + documented escape list define what a spelling denotes"),
 "C16": ("exploration", "wait programs (0-2 enclosing try blocks, literal / case-insensitive / regex / multi-part patterns incl. self-overlapping ones, inverted sets and wildcards sharing bytes with what follows) compared as languages with an independently built restart automaton at every prefix (feed code, FAIL pointer, end() on a copy) and by 256-byte sweeps", "3 C16", "reference-model monitor (restart automaton) over recorded executions of sanitized emitted C",
         "restart rule as documented"),
 "C20": ("exploration", "each program compiled alone in a fresh process, in fresh processes under random PYTHONHASHSEED with an allocation preamble, and after 1-30 other compilations in one process; verdicts must agree and the emitted parsers, linked into one sanitized binary, must give identical per-byte traces", "3 C20", "differential runtime monitoring across perturbed compiler executions (hash seed, heap layout, process history)",
         "fresh-process hash-seed-0 compilation is the reference; textual differences are not flagged"),
 "C17": ("exploration", "EOF-enabled programs with `end` in match / concatenation / case / wait positions and inside try blocks; end() called after every explored input and every prefix of guided inputs; events and the result compared with the reference interpreter run on input + END", "3 C17", "reference-model monitor (procedural interpreter with an END symbol) over recorded executions of sanitized emitted C",
         "END is a symbol no data pattern matches; `end`/wait inside foreach bodies are outside the profile (undocumented)"),
 "C18": ("exploration", "the real compiler pipeline run in-process on generated sources with semantic chaos spliced in; exception-class monitor (anything but the diagnosed classes, or an unrenderable message, is internal) and a sys.monitoring PY_START step budget as logical clock; the real command line on long / deep inputs and under several hash seeds", "3 C18", "exception and step monitors around real compilations",
         "diagnosed = NMFUError subclasses, LarkError, option RuntimeError; hang = step budget exceeded twice"),
 "C19": ("exploration", "icontract post-condition on the real ProgramData.load_commandline_flags (implications, exclusions, override rules read from flag metadata) over all 3^n assignments of the related flags x levels (thorough) plus cross-call monitors for level monotonicity, permutation independence and malformed options", "3 C19", "icontract runtime contract on the real function + cross-call monitors",
         "flag metadata (implies/exclusive_with) is the specification of the relations"),
}
NA_REASON = "check not built yet in this session (planned: see DESIGN.md section 3); not claimed"
man = {
 "version": 1,
 "setup_cmd": "/venv/bin/pip install -q --no-index --find-links /opt/veriftools/wheels --target /verif/.deps icontract jsonschema",
 "hooks": {"guard": "NMFU_VERIF", "enable": "no source hooks: monitors are attached from the harness (icontract wrappers, sys.monitoring, recording C driver)", "baseline_off_cmd": "cd /repo && /venv/bin/python -m pytest -q -p no:cacheprovider --timeout=900", "source_commits": [], "add_only": True},
 "engines": [
   {"name": "cdrv", "path": "vf/cdrv.py + vf/c/driver.c", "serves_properties": ["C01","C02","C03","C04","C05","C06","C07","C08","C09","C10","C12","C13","C14","C15","C16","C17","C20"], "kind_free_text": "recording C driver: sanitized batch builds, event log, invariants, step meter"},
   {"name": "nm", "path": "vf/nm.py", "serves_properties": sorted(CHECKS), "kind_free_text": "in-process driver of the real compiler with exception classification and PY_START step meter"},
   {"name": "ri", "path": "vf/ri.py + vf/rx.py + vf/carith.py", "serves_properties": ["C01","C08","C09","C10","C17"], "kind_free_text": "reference interpreter of the procedural reading with explicit slack checker"},
   {"name": "am", "path": "vf/am.py", "serves_properties": ["C06"], "kind_free_text": "abstract machine over the compiled DFA"},
   {"name": "gen", "path": "vf/gen.py + vf/rx.py", "serves_properties": ["C02","C03","C05","C11","C12","C18"], "kind_free_text": "seeded program generator over the documented statement language"},
 ],
 "checks": [], "not_applicable": [],
 "notes": "All checks: ./check <ID> <quick|thorough>; VERIF_SEED selects the workload; exit 0 held / 1 violation / 2 inconclusive.",
}
for pid in sorted(props):
    if pid in CHECKS:
        cat, text, ref, tech, note = CHECKS[pid]
        man["checks"].append({"property_id": pid, "quick_cmd": "./check %s quick" % pid, "thorough_cmd": "./check %s thorough" % pid,
            "evidence_file": "evidence/%s.json" % pid, "replay_cmd_template": "./check %s quick --replay {path}" % pid, "engine": "vf",
            "level_claimed": {"category": cat, "text": text, "design_ref": "DESIGN.md section " + ref}, "level_note": note, "technique": tech})
    else:
        man["not_applicable"].append({"property_id": pid, "reason": NA_REASON})
json.dump(man, open(os.path.join(HERE, "MANIFEST.json"), "w"), indent=1)
import sys
sys.path.insert(0, os.path.join(HERE, ".deps"))
import jsonschema
jsonschema.validate(man, json.load(open("/root/.vp/MANIFEST.schema.json")))
print("MANIFEST ok:", len(man["checks"]), "checks,", len(man["not_applicable"]), "not claimed")
