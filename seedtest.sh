#!/bin/sh
# usage: seedtest.sh <repo-dir-with-change-applied> <seeds> -- <IDs...> : which checks detect the change (exit 1 + VIOLATION)
dir=$1; shift
seeds=""
while [ "$1" != "--" ]; do seeds="$seeds $1"; shift; done
shift
for id in "$@"; do
  for s in $seeds; do
    out=$(VERIF_REPO=$dir VERIF_SEED=$s ./check $id quick 2>&1); rc=$?
    nv=$(echo "$out" | grep -c '^VIOLATION')
    echo "$id seed=$s rc=$rc violations=$nv $(echo "$out" | grep -E '  key=' | sed 's/: .*//' | sort | uniq -c | sort -rn | head -3 | tr '\n' ';')"
  done
done
