#!/bin/sh
# usage: sweep.sh <tier> <seeds...> -- <ids...>   runs checks over seeds, prints one line per non-clean run
tier=$1; shift
seeds=""
while [ "$1" != "--" ]; do seeds="$seeds $1"; shift; done
shift
for id in "$@"; do
  for s in $seeds; do
    out=$(VERIF_SEED=$s ./check $id $tier 2>&1); rc=$?
    echo "$id seed=$s rc=$rc $(echo "$out" | grep -E '^\[' | cut -c1-160)"
    if [ $rc -ne 0 ]; then echo "$out" | grep -E "VIOLATION|key=|INCONCLUSIVE|Traceback|Error" | cut -c1-400 | sort | uniq -c | sort -rn | head -12; fi
  done
done
