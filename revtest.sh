#!/bin/sh
# usage: revtest.sh <fix-commit> <seeds> -- <check IDs...>: undo one fix: commit of /repo in a scratch worktree of HEAD and see which checks notice
c=$1; shift
d=/tmp/rev-$c
rm -rf $d; git -C /repo worktree prune
git -C /repo worktree add -q $d HEAD || exit 3
if ! git -C $d revert -n $c >/dev/null 2>&1; then echo "REVERT DOES NOT APPLY"; git -C /repo worktree remove --force $d; exit 3; fi
/verif/seedtest.sh $d "$@"
git -C /repo worktree remove --force $d
